"""python -m vf <Cxx> [--tier quick|thorough] [--replay file]"""
import argparse
import importlib
import json
import os
import sys
import traceback

from . import runtime


def main(argv=None):
    ap = argparse.ArgumentParser(prog='vf')
    ap.add_argument('prop')
    ap.add_argument('--tier', default=os.environ.get('VERIF_TIER', 'quick'), choices=['quick', 'thorough'])
    ap.add_argument('--replay')
    args = ap.parse_args(argv)
    prop = args.prop.upper()
    try:
        seed = int(os.environ.get('VERIF_SEED', '0'))
    except ValueError:
        seed = 0
    try:
        runtime.import_repo()
        mod = importlib.import_module(f'vf.props.{prop.lower()}')
        if args.replay:
            with open(args.replay) as f:
                data = json.load(f)
            return mod.replay(data)
        rep = runtime.Report(prop, args.tier, seed, mod.LEVEL)
        mod.run(rep)
        return rep.finish()
    except runtime.HarnessError as e:
        print(f'HARNESS {e}')
        return 2
    except Exception as e:
        where = runtime._raised_in_library(e)
        if where is not None and not args.replay:
            if 'rep' not in locals():
                rep = runtime.Report(prop, args.tier, seed, 'exploration')
            # same rule as in the workers: an unhandled exception from pjplan's own code is a violation, not a harness error
            rep.acc.violation(prop, f'library-exception/{type(e).__name__}/{where[0]}:{where[1]}',
                              f'{type(e).__name__}: {e} raised in {where[0]}:{where[2]} ({where[1]})',
                              {'traceback': ''.join(traceback.format_exception(type(e), e, e.__traceback__))[-1500:]})
            rep.coverage.setdefault('evaluations', 1)
            rep.coverage.setdefault('distinct_nontrivial', 2)
            rep.coverage.setdefault('rule', 'run aborted by an exception raised inside the library')
            rep.coverage.setdefault('states', 1)
            rep.coverage.setdefault('transitions', 1)
            rep.coverage.setdefault('traces_validated_against_impl', 0)
            return rep.finish()
        print('HARNESS unexpected error in the checking machinery:')
        traceback.print_exc()
        return 2


if __name__ == '__main__':
    sys.exit(main())
