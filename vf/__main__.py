"""python -m vf <Cxx> [--tier quick|thorough] [--replay file]"""
import argparse
import importlib
import json
import os
import sys
import traceback

from . import runtime


def main(argv=None):
    ap = argparse.ArgumentParser(prog='vf')
    ap.add_argument('prop')
    ap.add_argument('--tier', default=os.environ.get('VERIF_TIER', 'quick'), choices=['quick', 'thorough'])
    ap.add_argument('--replay')
    args = ap.parse_args(argv)
    prop = args.prop.upper()
    try:
        seed = int(os.environ.get('VERIF_SEED', '0'))
    except ValueError:
        seed = 0
    try:
        runtime.import_repo()
        mod = importlib.import_module(f'vf.props.{prop.lower()}')
        if args.replay:
            with open(args.replay) as f:
                data = json.load(f)
            return mod.replay(data)
        rep = runtime.Report(prop, args.tier, seed, mod.LEVEL)
        mod.run(rep)
        return rep.finish()
    except runtime.HarnessError as e:
        print(f'HARNESS {e}')
        return 2
    except Exception:
        print('HARNESS unexpected error in the checking machinery:')
        traceback.print_exc()
        return 2


if __name__ == '__main__':
    sys.exit(main())
