"""Harness-side seams for the two sources of nondeterminism in pjplan's schedulers and renderers:
the wall clock (module-global `datetime` rebinding) and resource calendars (public IWorkCalendar).
No source hook is needed."""
import sys
from datetime import datetime, timedelta

from . import runtime

DAY = timedelta(days=1)


def midnight(d):
    return datetime(d.year, d.month, d.day)


class ClockControl:
    """What VClock.now() answers. mode 'const': always `value`.  mode 'script': the i-th read
    asks the chooser how far to advance along `menu` (alternative 0 = same value as before)."""

    def __init__(self):
        self.value = datetime(2000, 1, 1)
        self.reads = 0
        self.values_read = []
        self.chooser = None
        self.menu = None
        self.pos = 0

    def set_const(self, value):
        self.value = value
        self.reads = 0
        self.values_read = []
        self.chooser = None

    def set_script(self, menu, chooser, start_pos=0):
        self.menu = menu
        self.pos = start_pos
        self.chooser = chooser
        self.reads = 0
        self.values_read = []

    def now(self):
        self.reads += 1
        if self.chooser is not None:
            remaining = len(self.menu) - 1 - self.pos
            if remaining > 0:
                adv = self.chooser.choose('clock', remaining + 1)
                self.pos += adv
            v = self.menu[self.pos]
        else:
            v = self.value
        self.values_read.append(v)
        return v


CLOCK = ClockControl()


class _VClockMeta(type):
    """Library code that type-checks with the rebound name (`isinstance(x, datetime)`) must keep accepting plain datetimes."""

    def __instancecheck__(cls, obj):
        return isinstance(obj, datetime)

    def __subclasscheck__(cls, sub):
        return issubclass(sub, datetime)


class VClock(datetime, metaclass=_VClockMeta):
    """datetime whose now()/today()/utcnow() are answered by the harness."""

    @classmethod
    def now(cls, tz=None):
        return CLOCK.now()

    @classmethod
    def today(cls):
        return CLOCK.now()

    @classmethod
    def utcnow(cls):
        return CLOCK.now()


_installed = False


def install_clock():
    """Rebind `datetime` in every loaded pjplan module that imported the class by name."""
    global _installed
    import pjplan  # noqa
    n = 0
    for name, mod in list(sys.modules.items()):
        if (name == 'pjplan' or name.startswith('pjplan.')) and mod is not None:
            if getattr(mod, 'datetime', None) in (datetime, VClock) and isinstance(getattr(mod, 'datetime'), type):
                setattr(mod, 'datetime', VClock)
                n += 1
    _installed = True
    return n


def plain(d):
    """Normalise a VClock (or datetime) to a plain datetime for comparison/serialisation."""
    if d is None:
        return None
    return datetime(d.year, d.month, d.day, d.hour, d.minute, d.second, d.microsecond)


def clock_canary():
    """A forward calc of one unfixed task must read the virtual clock at least once; the DHTMLX
    renderer as well. Otherwise the seam is lost: harness error, never a verdict."""
    from pjplan import Task, WBS, ForwardScheduler, DhtmlxGantt
    install_clock()
    CLOCK.set_const(datetime(2024, 1, 1))
    w = WBS()
    w // Task(1, 'a', estimate=8)
    s = ForwardScheduler(start=datetime(2024, 1, 1)).calc(w)
    if CLOCK.reads < 1:
        raise runtime.HarnessError('seam-lost: ForwardScheduler.calc did not read the virtual clock')
    CLOCK.set_const(datetime(2024, 1, 1))
    DhtmlxGantt(s.schedule).to_html()
    if CLOCK.reads < 1:
        raise runtime.HarnessError('seam-lost: DhtmlxGantt.to_html did not read the virtual clock')


# ----------------------------------------------------------------------------------------------
# calendars

class BudgetExceeded(BaseException):
    """Raised by CountingCalendar when a calc looks at more days than the documented horizons allow."""


class LookupBudget:
    def __init__(self):
        self.count = 0
        self.limit = None

    def reset(self, limit):
        self.count = 0
        self.limit = limit


BUDGET = LookupBudget()


def make_calendar_classes():
    from pjplan import IWorkCalendar

    class CountingCalendar(IWorkCalendar):
        """Proxy around a real pjplan calendar that counts lookups (termination budget, C14)."""

        def __init__(self, inner):
            self.inner = inner

        def get_available_units(self, date):
            BUDGET.count += 1
            if BUDGET.limit is not None and BUDGET.count > BUDGET.limit:
                raise BudgetExceeded()
            return self.inner.get_available_units(date)

    class LazyCalendar(IWorkCalendar):
        """Calendar whose per-day answers are choice points, memoised per day (so it is a function).
        Outside the window of `horizon` days from the first day asked about, capacity is `default`."""
        ALTS = (8, 0, 4, 0.5)

        def __init__(self, chooser, horizon=6, direction=1, default=8):
            self.chooser = chooser
            self.h = horizon
            self.dir = direction
            self.default = default
            self.memo = {}
            self.anchor = None
            self.frozen = False

        def get_available_units(self, date):
            BUDGET.count += 1
            if BUDGET.limit is not None and BUDGET.count > BUDGET.limit:
                raise BudgetExceeded()
            day = datetime(date.year, date.month, date.day)
            if day in self.memo:
                return self.memo[day]
            if self.frozen:
                return self.default
            if self.anchor is None:
                self.anchor = day
            off = (day - self.anchor).days * self.dir
            if 0 <= off < self.h:
                c = self.chooser.choose('cal', len(self.ALTS))
                v = self.ALTS[c]
            else:
                v = self.default
            self.memo[day] = v
            return v

    return CountingCalendar, LazyCalendar


class WallTimeout(BaseException):
    """Raised inside library code by the watchdog timer (BaseException: a broad `except Exception` in the library cannot eat it)."""


class time_limit:
    """Wall-clock watchdog for one library call that must terminate: `with time_limit(60): scheduler.calc(w)`.
    The limit is orders of magnitude above what the call needs on the bounded inputs of the checks (milliseconds; the longest,
    a 100000-day horizon scan, about a second), so only a call that does not terminate reaches it. Main thread of a worker process only."""

    def __init__(self, seconds):
        self.seconds = seconds
        self.old = None

    def _fire(self, signum, frame):
        raise WallTimeout()

    def __enter__(self):
        import signal
        self.old = signal.signal(signal.SIGALRM, self._fire)
        signal.setitimer(signal.ITIMER_REAL, self.seconds)
        return self

    def __exit__(self, *a):
        import signal
        signal.setitimer(signal.ITIMER_REAL, 0)
        signal.signal(signal.SIGALRM, self.old)
        return False
