"""Setup-time self-checks of the machinery (python -m vf.selfcheck). Exit 0 when consistent."""
import sys

from . import runtime


def main():
    runtime.import_repo()
    from .explore import bfs
    U = bfs.make_universe('U2')
    enc = U.encode()
    U.restore(enc)
    assert U.encode() == enc
    print('selfcheck ok')
    return 0


if __name__ == '__main__':
    sys.exit(main())
