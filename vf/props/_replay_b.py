"""Replay of an Engine B counterexample: scenario (+ environment decisions) -> one calc on the real code."""
from datetime import datetime

from .. import runtime, seams
from ..explore import choice
from ..sched.scenario import Scenario, execute, SchedObs, BuildRejected
from . import _engineb as B


def replay(data, prop):
    seams.clock_canary()
    rc = 0
    for ex in data.get('examples', []):
        case = ex['case']
        sc = Scenario.from_json(case['scenario'])
        acc = runtime.Acc()
        print('scenario:', case['scenario'])
        if prop == 'C06':
            if sc.layer == 'L4clock':
                B.c06_clock(sc, acc)
            elif sc.layer == 'H':
                B.c06_histories('quick', sc.sched, sc.balance, acc)
            else:
                B.c06_plain(sc, acc)
        elif 'clock_menu' in case:
            menu = [datetime.fromisoformat(m) for m in case['clock_menu']]
            ch = choice.Chooser(case['decisions'])
            e = B.execute_with_clock(sc, ch, menu, case.get('clock_start_pos', 0))
            B.evaluate(prop, sc, e, acc)
        elif 'decisions' in case:
            ch = choice.Chooser(case['decisions'])
            e = execute(sc, chooser=ch)
            B.evaluate(prop, sc, e, acc)
        else:
            B.run_plain(prop, sc, acc)
        for (p, sig), (n, exs) in sorted(acc.viol.items()):
            print(f'  {p} {sig}: {exs[0]["message"]}')
            if p == prop:
                rc = 1
    print('REPRODUCED' if rc else 'not reproduced')
    return rc
