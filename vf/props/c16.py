from . import _enginea
LEVEL = _enginea.LEVEL


def run(rep):
    _enginea.run(rep, 'C16')


def replay(data):
    from . import _replay_a
    return _replay_a.replay(data)
