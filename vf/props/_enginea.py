"""Shared driver for the Engine A properties (C01, C05, C11, C15, C16)."""
from .. import runtime
from ..explore import bfs

LEVEL = 'model_checking'

# (universe, max depth | None = closure, link bound | None)
QUICK = [('U2', None, None), ('U3', None, None), ('U3dq', None, None), ('U4l', 3, None), ('U4e', None, None), ('U4o', None, None),
         # constructor arguments (parent=, children=, predecessors=, successors= in one call): two steps deep
         ('U3c', 2, None)]
THOROUGH = [('U2', None, None), ('U3', None, None), ('U3d', None, None), ('U4l', None, None), ('U3c', None, None),
            ('U4e', None, None), ('U4s', None, None), ('U4', None, 1), ('U4d', None, 1)]

PHASE2 = {('U4e', 'quick'): 'attach', ('U4e', 'thorough'): 'full', ('U4s', 'thorough'): 'full', ('U4o', 'quick'): 'order'}

RULES = {
    'C01': 'every transition of the BFS closure; non-trivial = distinct (pre-state, op) pairs that change the graph or are rejected',
    'C05': 'as C01; premise counters report calls whose documented effect would duplicate an id',
    'C11': 'as C01; premise counters report attach-a-free-root transitions',
    'C15': 'every raising transition of the closure; non-trivial = distinct rejected (pre-state, op) pairs',
    'C16': 'every returning transition compared with the reference semantics; non-trivial = distinct accepted state-changing (pre-state, op) pairs',
}


def run(rep, prop):
    plan = QUICK if rep.tier == 'quick' else THOROUGH
    per = []
    states = trans = 0
    exhaustive = True
    for uname, maxd, maxl in plan:
        # quick: a universe that is not closed after 10 minutes (on the unchanged tree each closes within a minute) is reported as
        # not exhausted instead of being explored for hours - a library that keeps memoised state in its objects multiplies the
        # concrete states by the memo contents; what was explored until then is judged as usual
        r = bfs.explore(uname, rep.acc, max_depth=maxd, max_links=maxl, phase2=PHASE2.get((uname, rep.tier)), state_cap=400000,
                        time_cap=600 if rep.tier == 'quick' else None)
        r['link_bound'] = maxl
        per.append({k: v for k, v in r.items() if k not in ('state_list', 'U')})
        states += r['states']
        trans += r['transitions']
        if not r['closed'] and maxd is None:
            exhaustive = False
    # five tasks: start states built directly (three or more levels, all in W0, <= 1 link), one step of the attach alphabet
    st5 = bfs.seeded_states('U5', deep_only=True, in_wbs=(True,) if rep.tier == 'quick' else (True, False), max_links=1)
    t5 = bfs.from_states('U5', st5, 'attach' if rep.tier == 'quick' else 'full', rep.acc)
    per.append({'universe': 'U5', 'start_states_built_directly': len(st5), 'transitions': t5,
                'alphabet': 'attach' if rep.tier == 'quick' else 'full'})
    states += len(st5)
    trans += t5
    # four tasks, the last two look-alikes of the first two (ids (0, 2, 0, 2), equal names and attribute values): every ordered forest, detached or spread over two WBSs, <= 1 link; one step
    # of the attach alphabet (a task moved between two parents that look alike, into a tree that already holds its id)
    st4 = bfs.seeded_states('U4q', deep_only=False, in_wbs=(False, 'split'), max_links=1 if rep.tier == 'thorough' else 0)
    t4 = bfs.from_states('U4q', st4, 'attach', rep.acc)
    per.append({'universe': 'U4q', 'start_states_built_directly': len(st4), 'transitions': t4, 'alphabet': 'attach'})
    states += len(st4)
    trans += t4
    # ids (1, 2, 0, 0): three tasks in W0 in every hierarchy with <= 1 link, the fourth - sharing an id with the third - detached;
    # one step of the attach alphabet, and what follows from successors that break only C05 / C11 (two more steps)
    st4e = bfs.seeded_states('U4e', deep_only=False, in_wbs=('last-out',), max_links=1)
    t4e = bfs.from_states('U4e', st4e, 'attach', rep.acc)
    per.append({'universe': 'U4e', 'start_states_built_directly': len(st4e), 'transitions': t4e, 'alphabet': 'attach'})
    states += len(st4e)
    trans += t4e
    # held-facade transitions (DESIGN section 0): U2 from every state; U3 from the states of depth <= 1 (quick) / all (thorough)
    held = 0
    for uname, maxd in (('U2', None), ('U3', 1 if rep.tier == 'quick' else None)):
        tmp = runtime.Acc()
        r = bfs.explore(uname, tmp, max_depth=maxd, collect=True)
        held += bfs.held_facades(uname, r['state_list'], rep.acc, quick=False)
    trans += held
    # scale probes (deep chains, wide lists, a tree of > 1000 tasks, unusual id types): fixed inputs larger than the universes
    from ..explore import probes
    probes.run_all(rep.acc)
    trans += rep.acc.counters['probe_calls']
    per.append({'scale_probes': rep.acc.counters['probe_cases'], 'calls': rep.acc.counters['probe_calls']})
    c = rep.acc.counters
    rep.coverage.update({
        'states': states, 'transitions': trans, 'traces_validated_against_impl': trans,
        'evaluations': trans, 'distinct_nontrivial': c['nontrivial_accepted_changing'] + c['nontrivial_rejected'],
        'rule': RULES[prop], 'universes': per, 'exhaustive': exhaustive, 'held_facade_transitions': held,
        'accepted_transitions': sum(v for k, v in c.items() if isinstance(k, str) and k.startswith('accepted:')),
        'rejected_transitions': sum(v for k, v in c.items() if isinstance(k, str) and k.startswith('rejected:')),
        'explanation': 'explicit-state BFS over the real Task/WBS objects; every edge executed on the implementation and '
                       'on the reference semantics in lock-step (so every model trace is validated against the implementation)',
    })
    rep.assumptions += [
        'small scope: <=4 tasks, <=2 WBS, list arguments of <=2 elements',
        'states in which a link list holds the same task twice are checked but not expanded',
        'ill-formed successor states are reported and not expanded',
        'positions the documentation leaves open (DESIGN 4.4) are admitted explicitly',
    ]
