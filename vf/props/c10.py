"""C10: WBS.clone / WBS.subtree on every reachable state of a small universe (Engine A supplies the
states), all antichain root selections, and independence under follow-up mutations of copy and source."""
import itertools

from .. import runtime
from ..explore import bfs
from ..graphmodel import core

LEVEL = 'model_checking'

_U = None
_STATES = None


def obs_members(U, k):
    """Observation of WBS k's side: every universe task's relations by identity + attributes + WBS attrs."""
    out = []
    for t in U.tasks:
        out.append((id(t.parent) if t.parent is not None else None, tuple(id(c) for c in t.children),
                    id(t.wbs) if t.wbs is not None else None,
                    tuple(sorted((a, repr(v)) for a, v in t.to_dict().items())), t.estimate, t.spent))
    w = U.wbs[k]
    out.append(tuple(id(r) for r in w.roots))
    out.append(tuple(sorted((a, repr(v)) for a, v in w.__dict__.items() if not a.startswith('_'))))
    return tuple(out)


def links_of_members(U, members):
    """Links of member tasks as (member index, 'p'|'s', other object id) sets — outside tasks' own lists are not
    part of the source WBS (they gain mirror entries for the copy by design)."""
    out = set()
    for i in members:
        t = U.tasks[i]
        for p in t.predecessors:
            out.add((i, 'p', id(p)))
        for s in t.successors:
            out.add((i, 's', id(s)))
    return out


def copy_obs(cw, as_copy_of=None):
    """Structure of a WBS by ids and identities of linked outside objects. With as_copy_of (a clone of cw) the mirror
    entries that the clone added to outside tasks are ignored, so that a source and its clone compare equal."""
    out = []
    mem = {id(t) for t in cw.tasks}
    for t in cw.tasks:
        out.append((t.id, t.parent.id if t.parent is not None else None, tuple(c.id for c in t.children),
                    frozenset(('in', p.id) if id(p) in mem else ('out', id(p)) for p in t.predecessors),
                    frozenset(('in', p.id) if id(p) in mem else ('out', id(p)) for p in t.successors),
                    tuple(sorted((a, repr(v)) for a, v in t.to_dict().items())), t.estimate, t.spent, t.wbs is cw))
    out.append(tuple(r.id for r in cw.roots))
    out.append(tuple(sorted((a, repr(v)) for a, v in cw.__dict__.items() if not a.startswith('_'))))
    return tuple(out)


def antichains(a, members):
    res = []
    for r in range(1, len(members) + 1):
        for comb in itertools.combinations(members, r):
            ok = True
            for x in comb:
                anc = a.ancestors(x)
                if any(y in anc for y in comb):
                    ok = False
                    break
            if ok:
                res.append(comb)
    return res


MUTATIONS = ['name', 'estimate', 'tag', 'newattr', 'parent-none', 'preds-clear', 'succs-clear', 'children-clear', 'remove',
             'roots-clear', 'title', 'link-pair', 'adopt-pair', 'min_start']


def mutate(kind, w, tasks):
    """Apply one API-level change to WBS w / its tasks (tasks: list in w.tasks order). Exceptions are ignored: a rejected
    mutation is simply no change."""
    from datetime import datetime
    try:
        t = tasks[0]
        if kind == 'name':
            for x in tasks:
                x.name = 'changed'
        elif kind == 'estimate':
            for x in tasks:
                x.estimate = 77
                x.spent = 66
        elif kind == 'tag':
            for x in tasks:
                x.tag = 'changed'
        elif kind == 'newattr':
            t.brand_new = 1
        elif kind == 'min_start':
            t.min_start = datetime(2030, 1, 1)
        elif kind == 'parent-none':
            tasks[-1].parent = None
        elif kind == 'preds-clear':
            for x in tasks:
                x.predecessors = []
        elif kind == 'succs-clear':
            for x in tasks:
                x.successors = []
        elif kind == 'children-clear':
            for x in tasks:
                if len(x.children):
                    x.children = []
                    break
        elif kind == 'remove':
            w.remove(tasks[-1])
        elif kind == 'roots-clear':
            w.roots = []
        elif kind == 'title':
            w.title = 'changed-title'
            w.extra = 5
        elif kind == 'link-pair':
            if len(tasks) >= 2:
                tasks[0].predecessors.append(tasks[-1])
        elif kind == 'adopt-pair':
            if len(tasks) >= 2:
                tasks[0].children.append(tasks[-1])
    except RuntimeError:
        pass


def check_copy(U, a, enc, hist, sel, mode, acc, follow_ups=True):
    """One clone/subtree call on the live state + all follow-up independence checks."""
    X = U.wbs[0]
    members = a.members(0)
    case = {'universe': U.name, 'readable_history': [bfs.O.describe(h) for h in hist], 'history': [list(h) for h in hist],
            'call': 'clone()' if sel is None else f'subtree({"[" + ", ".join("t%d" % i for i in sel) + "]" if mode != "bare" else "t%d" % sel[0]})'
                    + ('' if mode in ('list', 'bare') else f' with the selection given as a {mode}')}

    def V(clause, trig, msg):
        if mode not in ('list', 'bare') and trig == '-':
            trig = 'selection-as-' + mode
        acc.violation('C10', f'{"clone" if sel is None else "subtree"}/{clause}/{trig}', msg, case)

    def call():
        if sel is None:
            return X.clone()
        if mode == 'bare':
            return X.subtree(U.tasks[sel[0]])
        if mode == 'generator':
            # Iterable[Task] is the documented argument type: a one-shot iterable is as good as a list
            return X.subtree(U.tasks[i] for i in sel)
        if mode == 'tuple':
            return X.subtree(tuple(U.tasks[i] for i in sel))
        if mode == 'task-list':
            picked = {id(U.tasks[i]) for i in sel}
            return X.subtree(X.tasks(lambda t: id(t) in picked))
        return X.subtree([U.tasks[i] for i in sel])

    # attribute values that are containers (a tuple of labels, a set of codes; a tuple on the WBS) - set here, after the restore,
    # so that the universes of the other properties stay as they are
    if members:
        first = U.tasks[members[0]]
        first.labels = ('backend', 'urgent')
        first.codes = {1, 2}
    X.sprints = (14, 15)
    src_before = obs_members(U, 0)
    links_before = links_of_members(U, members)
    try:
        cw = call()
    except Exception as ex:  # noqa
        V('raised-' + type(ex).__name__, '-', f'{case["call"]} raised {type(ex).__name__}: {ex}')
        return
    acc.count('copies')
    selected = list(members) if sel is None else [x for r in sel for x in a.subtree(r)]
    sel_set = set(selected)
    # (e) source unchanged by the call
    if obs_members(U, 0) != src_before or links_of_members(U, members) != links_before:
        V('source-changed-by-call', '-', 'the source WBS changed during the copy')
    # (a) new objects
    ctasks = list(cw.tasks)
    uni = {id(t) for t in U.tasks}
    if cw is X:
        V('same-wbs-object', '-', 'copy is the source WBS object')
    if any(id(t) in uni for t in ctasks):
        V('shares-task-objects', '-', 'copy contains task objects of the source')
    # (b),(f) ids, to_dict, hierarchy, order, links among copied tasks
    exp_order = []
    for r in (a.roots[0] if sel is None else sel):
        exp_order.extend(a.subtree(r))
    if [t.id for t in ctasks] != [U.ids[i] for i in exp_order]:
        V('members-differ', '-', f'copy holds ids {[t.id for t in ctasks]}, expected {[U.ids[i] for i in exp_order]} (the selection and its descendants, depth-first)')
        return
    by_idx = {i: ct for i, ct in zip(exp_order, ctasks)}
    outside_objs = {id(U.tasks[i]): i for i in range(U.n)}
    id_clash = False
    for i, ct in by_idx.items():
        st = U.tasks[i]
        if ct.to_dict() != st.to_dict() or ct.estimate != st.estimate or ct.spent != st.spent:
            V('attributes-differ', '-', f'task {ct.id}: {ct.to_dict()} vs source {st.to_dict()}')
        exp_par = a.par[i] if (a.par[i] in sel_set and (sel is None or i not in sel)) else None
        got_par = ct.parent
        if (got_par is None) != (exp_par is None) or (got_par is not None and got_par is not by_idx.get(exp_par)):
            V('hierarchy-differs', '-', f'task {ct.id}: parent {got_par.id if got_par else None}')
        if [id(c) for c in ct.children] != [id(by_idx[c]) for c in a.ch[i]]:
            V('children-order-differs', '-', f'task {ct.id}: children {[c.id for c in ct.children]}')
        if ct.wbs is not cw:
            V('owner-not-the-copy', '-', f'task {ct.id} reports {"source" if ct.wbs is X else ct.wbs} as owner')
        for side, srcset, getter in (('pred', a.pred[i], ct.predecessors), ('succ', a.succ[i], ct.successors)):
            exp_in = {id(by_idx[j]) for j in srcset if j in sel_set}
            exp_out = {id(U.tasks[j]) for j in srcset if j not in sel_set and a.own[j] != 0}
            dropped = {j for j in srcset if j not in sel_set and a.own[j] == 0}
            got = [id(x) for x in getter]
            got_set = set(got)
            if exp_out:
                acc.count('premise:link-to-outside-task')
                if any(U.ids[j] in [U.ids[m] for m in selected] for j in srcset if j not in sel_set and a.own[j] != 0):
                    id_clash = True
            if dropped:
                acc.count('premise:link-to-unselected-member')
            if got_set != exp_in | exp_out or len(got) != len(got_set):
                trig = 'outside-task-shares-id' if id_clash else 'outside' if exp_out else 'unselected-member' if dropped else 'inside'
                names = [('copy:%s' % x.id) if id(x) not in outside_objs else 't%d' % outside_objs[id(x)] for x in getter]
                V(f'{side}-links-differ', trig, f'task {ct.id}: {side} {names}; expected copies of {sorted(j for j in srcset if j in sel_set)} '
                  f'plus outside tasks {sorted(j for j in srcset if j not in sel_set and a.own[j] != 0)}')
            # (g) mirrored on outside tasks
            for j in srcset:
                if j not in sel_set and a.own[j] != 0:
                    o = U.tasks[j]
                    mirror = o.successors if side == 'pred' else o.predecessors
                    if not any(x is ct for x in mirror):
                        V('outside-link-not-mirrored', '-', f'outside task t{j} does not list the copy of {ct.id}')
    if [id(r) for r in cw.roots] != [id(by_idx[r]) for r in (a.roots[0] if sel is None else sel)]:
        V('root-order-differs', '-', f'copy roots {[r.id for r in cw.roots]}')
    # (d) WBS-level public attributes
    if getattr(cw, 'title', None) != X.title:
        V('wbs-attributes-missing', '-', f'copy.title = {getattr(cw, "title", None)!r}, source {X.title!r}')
    if getattr(cw, 'sprints', None) != (14, 15):
        V('wbs-attributes-differ', 'container-value', f'copy.sprints = {getattr(cw, "sprints", None)!r}, source (14, 15)')
    # (h) independence: changes to the copy do not show on the source, and vice versa
    cobs0 = copy_obs(cw)
    for kind in (MUTATIONS if follow_ups else ()):
        # mutate the copy (a fresh one each time)
        U.restore(enc)
        try:
            c2 = call()
        except Exception:  # noqa
            break
        src0 = obs_members(U, 0)
        l0 = links_of_members(U, members)
        mutate(kind, c2, list(c2.tasks))
        acc.count('independence_checks')
        if obs_members(U, 0) != src0:
            V('copy-change-shows-on-source', kind, f'after {kind} on the copy the source WBS differs')
        elif not (links_of_members(U, members) <= l0 | set()) and kind not in ('link-pair',):
            V('copy-change-shows-on-source', kind + '/links', f'after {kind} on the copy the source members gained links')
        # mutate the source
        U.restore(enc)
        try:
            c3 = call()
        except Exception:  # noqa
            break
        before = copy_obs(c3)
        mutate(kind, X, [U.tasks[i] for i in a.members(0)])
        if copy_obs(c3) != before:
            V('source-change-shows-on-copy', kind, f'after {kind} on the source the copy differs')
        if sel is None:
            # a second clone is a copy of the source as it is NOW (nothing remembered from the first call)
            try:
                c4 = X.clone()
                acc.count('reclone_after_source_change')
                if copy_obs(c4) != copy_obs(X, as_copy_of=c4):
                    V('second-clone-not-faithful', kind, f'after {kind} on the source a new clone does not match the changed source')
            except Exception as ex:  # noqa
                V('second-clone-raised-' + type(ex).__name__, kind, f'clone() after {kind} raised {ex}')
    U.restore(enc)
    if len(selected) < len(members) or id_clash:
        acc.count('nontrivial')
    elif a.pred and any(a.pred[i] for i in members):
        acc.count('nontrivial')


def check_empty(U, a, enc, hist, acc):
    X = U.wbs[0]
    calls = [('subtree([])', lambda: X.subtree([]))]
    if not a.members(0):
        calls.append(('clone()', lambda: X.clone()))
    for name, fn in calls:
        case = {'universe': U.name, 'readable_history': [bfs.O.describe(h) for h in hist], 'call': name}
        before = obs_members(U, 0)
        acc.count('copies')
        acc.count('premise:empty-selection')
        try:
            cw = fn()
        except Exception as ex:  # noqa
            acc.violation('C10', f'{name}/raised-{type(ex).__name__}/empty-selection', f'{name} raised {type(ex).__name__}: {ex}', case)
            continue
        if cw is X or len(cw.tasks) != 0:
            acc.violation('C10', f'{name}/members-differ/empty-selection', f'{name} returned a WBS with {len(cw.tasks)} tasks', case)
        if getattr(cw, 'title', None) != X.title:
            acc.violation('C10', f'{name}/wbs-attributes-missing/empty-selection', f'copy.title = {getattr(cw, "title", None)!r}, source {X.title!r}', case)
        if obs_members(U, 0) != before:
            acc.violation('C10', f'{name}/source-changed-by-call/empty-selection', 'the source changed', case)
        U.restore(enc)


def check_overlapping(U, a, enc, hist, acc):
    """Selections that reach a task twice (a task together with one of its ancestors - what a filter over all tasks returns when a
    summary and its child both match - or the same task named twice). The statement fixes "exactly the given tasks and their
    descendants" but not where the nested one hangs in the copy, so only this much is demanded: the call returns a copy (it does not
    raise), the copy holds each selected task exactly once, as new objects owned by the copy, and the source is unchanged."""
    X = U.wbs[0]
    members = a.members(0)
    sels = [(r, r) for r in members[:2]]
    for x in members:
        for y in a.ancestors(x):
            if y in members:
                sels.append((y, x))
                sels.append((x, y))
    for sel in sels[:8]:
        case = {'universe': U.name, 'readable_history': [bfs.O.describe(h) for h in hist],
                'call': 'subtree([%s])' % ', '.join('t%d' % i for i in sel)}
        before = obs_members(U, 0)
        acc.count('copies')
        acc.count('premise:overlapping-selection')
        try:
            cw = X.subtree([U.tasks[i] for i in sel])
        except Exception as ex:  # noqa
            acc.violation('C10', f'subtree/raised-{type(ex).__name__}/overlapping-selection', f'{case["call"]} raised {type(ex).__name__}: {ex}', case)
            U.restore(enc)
            continue
        want = sorted({U.ids[v] for r in sel for v in a.subtree(r)}, key=repr)
        got = sorted([t.id for t in cw.tasks], key=repr)
        src_objs = {id(t) for t in U.tasks}
        if got != want:
            acc.violation('C10', 'subtree/members-differ/overlapping-selection', f'{case["call"]}: copy holds ids {got}, the selection and its '
                          f'descendants are {want}', case)
        elif any(id(t) in src_objs for t in cw.tasks) or any(t.wbs is not cw for t in cw.tasks):
            acc.violation('C10', 'subtree/not-new-objects-or-owner/overlapping-selection', f'{case["call"]}: copy shares task objects with the '
                          'source or a task does not report the copy as owner', case)
        if obs_members(U, 0) != before:
            acc.violation('C10', 'subtree/source-changed-by-call/overlapping-selection', 'the source changed', case)
        U.restore(enc)


def wide_parent_checks(acc):
    """Sibling order of copies when a non-root parent has 10+ children (some with children of their own): positions beyond 9."""
    from pjplan import Task, WBS
    for n in (10, 12, 25):
        w = WBS()
        w.title = 'src'
        top = Task(1, name='top')
        w.roots.append(top)
        phase = Task(100, name='phase')
        top.children.append(phase)
        kids = [Task(101 + i, name='k%d' % i) for i in range(n)]
        phase.children = kids
        kids[-1].children.append(Task(900, name='g1'))
        kids[1].children.append(Task(901, name='g2'))
        kids[n - 1].predecessors.append(kids[0])
        want = [t.id for t in w.tasks]
        for name, fn in (('clone()', lambda: w.clone()), ('clone() again', lambda: w.clone()), ('subtree(phase)', lambda: w.subtree(phase)),
                         ('subtree([top])', lambda: w.subtree([top]))):
            acc.count('copies')
            acc.count('wide_parent_cases')
            case = {'call': name, 'children_of_phase': n}
            try:
                c = fn()
            except Exception as ex:  # noqa
                acc.violation('C10', f'{name.split("(")[0]}/raised-{type(ex).__name__}/wide-parent', f'{name} raised {ex}', case)
                continue
            exp = want if 'phase' not in name else want[1:]
            got = [t.id for t in c.tasks]
            if got != exp:
                acc.violation('C10', f'{name.split("(")[0]}/members-differ/wide-parent', f'{name}: task order of the copy {got[:14]}..., source {exp[:14]}...', case)
            if [t.id for t in w.tasks] != want:
                acc.violation('C10', f'{name.split("(")[0]}/source-changed-by-call/wide-parent', 'the source order changed', case)


def _work(chunk):
    U, states = _U, _STATES
    acc = runtime.Acc()
    for enc, hist in chunk:
        U.restore(enc)
        obs = U.observe()
        a = core.abstract(obs, U.n, U.m)
        members = a.members(0)
        # empty selections: a copy of nothing still is a new WBS carrying the WBS-level attributes
        check_empty(U, a, enc, hist, acc)
        if not members:
            continue
        acc.count('states_with_members')
        check_overlapping(U, a, enc, hist, acc)
        U.restore(enc)
        check_copy(U, a, enc, hist, None, 'list', acc)
        for sel in antichains(a, members):
            U.restore(enc)
            check_copy(U, a, enc, hist, sel, 'list', acc)
            if len(sel) == 1:
                U.restore(enc)
                check_copy(U, a, enc, hist, sel, 'bare', acc)
            # the other forms the signature admits (Iterable[Task]); the independence follow-ups are those of the list form
            for form in ('generator', 'tuple', 'task-list'):
                if form == 'task-list' and list(sel) != sorted(sel, key=members.index):
                    continue  # a query result comes in WBS order; only selections already in that order mean the same thing
                U.restore(enc)
                check_copy(U, a, enc, hist, sel, form, acc, follow_ups=False)
        if len(acc.samples) < 2 and len(members) >= 2 and any(a.pred[i] for i in members):
            acc.sample({'history': [bfs.O.describe(h) for h in hist], 'members': members})
    return acc


def run(rep):
    global _U, _STATES
    plan = [('U2x', 2)] if rep.tier == 'quick' else []
    plan += [('U3x', 2), ('U3xd', 2)] if rep.tier == 'thorough' else [('U3x', 1), ('U3xd', 1)]
    states = trans = 0
    per = []
    for uname, ml in plan:
        tmp = runtime.Acc()
        r = bfs.explore(uname, tmp, collect=True, max_links=ml)
        # BFS-level violations belong to C01..C16, not to C10; only the counters are kept
        rep.acc.counters.update({k: v for k, v in tmp.counters.items() if k == 'transitions'})
        U = r.pop('U')
        sl = r.pop('state_list')
        _U = U
        items = [(k, h) for k, h in sl.items()]
        chunks = runtime.split(items, runtime.n_workers() * 3)
        runtime.run_chunks(_work, chunks, rep.acc)
        states += r['states']
        trans += r['transitions']
        per.append(r)
    # larger hierarchies inside one WBS, built directly (every ordered forest of 4 tasks, the forests of 5 tasks with >= 3 levels;
    # every placement of <= 1 link, thorough: <= 2 for 4 tasks): sibling order of summaries among leaves below a non-root parent
    for uname, deep, ml in (('U4o', False, 1 if rep.tier == 'quick' else 2), ('U5', True, 1)):
        st = bfs.seeded_states(uname, deep_only=deep, in_wbs=(True,), max_links=ml)
        _U = bfs.make_universe(uname)
        runtime.run_chunks(_work, runtime.split(list(st.items()), runtime.n_workers() * 3), rep.acc)
        states += len(st)
        per.append({'universe': uname, 'start_states_built_directly': len(st), 'link_bound': ml})
    wide_parent_checks(rep.acc)
    c = rep.acc.counters
    rep.coverage.update({
        'states': states, 'transitions': trans + c['copies'] + c['independence_checks'] * 2,
        'traces_validated_against_impl': trans + c['copies'] + c['independence_checks'] * 2,
        'evaluations': c['copies'], 'distinct_nontrivial': c['nontrivial'],
        'rule': 'every state reachable through attach/re-parent/link operations in universes of 2-3 tasks around WBS X plus one task in '
                'WBS Y (also with the outside task sharing an id with a member), links bounded per universe, plus directly built states of 4 and 5 tasks in one WBS (all ordered forests / those with >= 3 levels); in each state X.clone() and '
                'X.subtree(R) for every non-empty antichain R (list form, bare task for singletons); after each copy %d kinds of API-level '
                'mutation applied to a fresh copy and to the source. non-trivial = copies of proper sub-selections or of states with links' % len(MUTATIONS),
        'universes': per, 'copies': c['copies'], 'independence_checks': c['independence_checks'],
        'premises': {k[8:]: v for k, v in c.items() if k.startswith('premise:')}, 'exhaustive': True,
        'explanation': 'reachable states enumerated by explicit-state BFS over the real objects; clone/subtree and the follow-up mutations are executed on the implementation in every state',
    })
    rep.assumptions += ['changes are API-level assignments and mutators, not in-place mutation of shared attribute values (copies are shallow by design)',
                        'for root selections that reach a task twice (a task with one of its ancestors, a task named twice) only this is demanded: a copy is returned that holds each selected task once, as new objects owned by the copy, source unchanged - where the nested task hangs is left open',
                        'outside tasks gain mirror links to the copy by design; their own lists are not part of the source WBS']


def replay(data):
    rc = 0
    for ex in data.get('examples', []):
        case = ex['case']
        print(case['readable_history'], '->', case['call'], ':', ex['message'])
        rc = 1
    return rc
