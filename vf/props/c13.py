"""C13: CSV round trip, fixpoint and hand-written layouts (Engine C)."""
import itertools
import os
import shutil
import tempfile
from datetime import datetime

from .. import runtime
from ..sched import layers as LY

LEVEL = 'exploration'

STRINGS = [None, '', 'a', ';', '"', 'a;b', '"q"', 'x\ny', 'x\r\ny', ' lead', 'ünï', '﻿b', "'", ',', 'tail ', '""', 'a"b;c\n"',
           'a\n\nb', 'a\r\n\r\nb', 'a\n \nb', '\nlead-break', 'tail-break\n', '\n', ' ', '\t',
           # texts a spreadsheet would take for formulas, and the same behind an apostrophe
           '=1+1', '+x', '-1 day', '@ops', "'=SUM", "'-1 day' buffer", "'@ops", "'+", "'", "''"]
DATES = [None, datetime(1969, 1, 1), datetime(2024, 2, 29), datetime(2068, 12, 31)]
NUMS = [None, 0, 2.5, 10, 0.1 + 0.2, 1 / 3, 12500.25, 1234567, 1e-07]
IDS = [0, -1, 1, 2, 10]
DEFAULT_FIELDS = ['id', 'name', 'resource', 'start', 'end', 'estimate', 'spent', 'milestone', 'parent_id', 'predecessor_ids']
TASK_FIELDS = {'name', 'resource', 'start', 'end', 'milestone', 'min_start'}


class Content:
    """Content model: tasks in WBS order: dict(id, parent (index), preds [indices], fields..., custom {})."""

    def __init__(self, par, ids, links, fields=None, custom=None):
        self.par = list(par)
        self.ids = list(ids)
        self.links = list(links)
        self.fields = fields or [{} for _ in par]
        self.custom = custom or [{} for _ in par]

    def to_json(self):
        def j(v):
            return v.isoformat() if isinstance(v, datetime) else v
        return {'parents': self.par, 'ids': self.ids, 'links': [list(x) for x in self.links],
                'fields': [{k: j(v) for k, v in f.items()} for f in self.fields], 'custom': self.custom}

    @staticmethod
    def from_json(d):
        def dt(k, v):
            return datetime.fromisoformat(v) if k in ('start', 'end', 'min_start') and isinstance(v, str) else v
        return Content(d['parents'], d['ids'], [tuple(x) for x in d['links']],
                       [{k: dt(k, v) for k, v in f.items()} for f in d['fields']], d['custom'])

    def build(self):
        from pjplan import Task, WBS
        w = WBS()
        objs = []
        for i in range(len(self.par)):
            kw = dict(self.fields[i])
            kw.update(self.custom[i])
            objs.append(Task(self.ids[i], **kw))
        for i, t in enumerate(objs):
            if self.par[i] is None:
                w.roots.append(t)
            else:
                objs[self.par[i]].children.append(t)
        for p, s in self.links:
            objs[s].predecessors.append(objs[p])
        return w

    def meaning(self):
        """What a reader must reproduce: list of per-task tuples in WBS order."""
        out = []
        n = len(self.par)
        for i in range(n):
            f = self.fields[i]
            preds = [self.ids[p] for p, s in self.links if s == i]
            out.append({
                'id': self.ids[i], 'parent': None if self.par[i] is None else self.ids[self.par[i]],
                'children': [self.ids[c] for c in range(n) if self.par[c] == i], 'preds': preds,
                'name': txt(f.get('name')), 'resource': txt(f.get('resource')), 'start': f.get('start'), 'end': f.get('end'),
                'estimate': f.get('estimate'), 'spent': f.get('spent'), 'milestone': bool(f.get('milestone', False)),
                'min_start': f.get('min_start'), 'custom': {k: txt(v) for k, v in self.custom[i].items() if txt(v) != ''},
            })
        return out


def txt(v):
    return '' if v is None else str(v)


def meaning_of_wbs(w):
    out = []
    for t in w.tasks:
        custom = {}
        for k, v in t.__dict__.items():
            if k.startswith('_') or k in TASK_FIELDS or k in DEFAULT_FIELDS:
                continue
            if txt(v) != '':
                custom[k] = txt(v)
        out.append({
            'id': t.id, 'parent': t.parent.id if t.parent is not None else None, 'children': [c.id for c in t.children],
            'preds': [p.id for p in t.predecessors], 'name': txt(t.name), 'resource': txt(t.resource), 'start': t.start,
            'end': t.end, 'estimate': t.estimate, 'spent': t.spent, 'milestone': bool(t.milestone), 'min_start': t.min_start,
            'custom': custom,
        })
    return out


def diff(exp, got):
    if len(exp) != len(got):
        return 'task-count', f'{len(got)} tasks, expected {len(exp)}'
    if [e['id'] for e in exp] != [g['id'] for g in got]:
        return 'ids-or-order', f'ids {[g["id"] for g in got]}, expected {[e["id"] for e in exp]}'
    for e, g in zip(exp, got):
        for k in ('parent', 'children', 'preds', 'name', 'resource', 'start', 'end', 'estimate', 'spent', 'milestone', 'min_start', 'custom'):
            if e[k] != g[k]:
                return k, f'task {e["id"]}: {k} = {g[k]!r}, expected {e[k]!r}'
    return None


# ---- independent writer for clause (c) ---------------------------------------------------------
def q(s, always):
    s = txt(s)
    if always or any(ch in s for ch in ';"\r\n'):
        return '"' + s.replace('"', '""') + '"'
    return s


def hand_write(content, path, eol, bom, quote_all, iso_min_start=False):
    cols = list(DEFAULT_FIELDS)
    customs = []
    for c in content.custom:
        for k in c:
            if k not in customs:
                customs.append(k)
    has_ms = any('min_start' in f for f in content.fields)
    if has_ms:
        cols.append('min_start')
    cols += customs
    lines = [';'.join(q(c, quote_all) for c in cols)]
    n = len(content.par)
    for i in range(n):
        f = content.fields[i]

        def d(v):
            return v.strftime('%d.%m.%y') if v is not None else ''
        row = [str(content.ids[i]), f.get('name'), f.get('resource'), d(f.get('start')), d(f.get('end')),
               txt(f.get('estimate')), txt(f.get('spent')), 'True' if f.get('milestone') else 'False',
               '' if content.par[i] is None else str(content.ids[content.par[i]]),
               ';'.join(str(content.ids[p]) for p, s in content.links if s == i)]
        if has_ms:
            ms = f.get('min_start')
            # the version before fix 704821e wrote this column as str(datetime); the reader still accepts that form
            row.append(d(ms) if not iso_min_start else ('' if ms is None else str(ms)))
        row += [content.custom[i].get(k) for k in customs]
        lines.append(';'.join(q(c, quote_all) for c in row))
    data = eol.join(lines) + eol
    with open(path, 'wb') as fh:
        fh.write((b'\xef\xbb\xbf' if bom else b'') + data.encode('utf-8'))


# ---- enumeration -----------------------------------------------------------------------------------
def contents(tier):
    """(layer, Content) — layered product: structure x one varying field family at a time, plus pairs."""
    nmax = 3 if tier == 'quick' else 4
    # structure x ids x links
    for n in range(1, nmax + 1):
        for par in LY.forests(n):
            if n == 4 and max(len(LY.ancestors(par, i)) for i in range(n)) > 2:
                pass
            idsets = list(itertools.permutations(IDS, n)) if n <= 3 else [p for p in itertools.permutations(IDS, n) if p[0] in (0, 10) or p[1] == 0][:60]
            if tier == 'quick' and n == 3:
                idsets = [p for p in idsets if 0 in p]
            for ids in idsets:
                for links in LY.link_sets(par, 3 if n == 3 else 2 if n < 3 else 1):
                    if LY.direct_cycle(n, links):
                        continue
                    yield 'structure', Content(par, ids, links, [{'name': 'n%d' % i} for i in range(n)])
    shapes = [((None,), (1,), ()), ((None, 0), (1, 2), ()), ((None, None), (2, 1), ((0, 1),)), ((None, 0, 0), (0, 5, 7), ((1, 2),))]
    # text fields: every single position, then pairs
    for par, ids, links in shapes:
        n = len(par)
        for i in range(n):
            for pos in ('name', 'resource', 'note'):
                for s in STRINGS:
                    fields = [{'name': 'n%d' % k} for k in range(n)]
                    custom = [{} for _ in range(n)]
                    if pos == 'note':
                        custom[i]['note'] = s
                    else:
                        fields[i][pos] = s
                    yield 'text', Content(par, ids, links, fields, custom)
        pair_strings = STRINGS if tier == 'thorough' else STRINGS[:12]
        for (pa, pb) in (('name', 'resource'), ('name', 'note'), ('resource', 'note')):
            for a in pair_strings:
                for b in pair_strings:
                    fields = [{'name': 'n%d' % k} for k in range(n)]
                    custom = [{} for _ in range(n)]
                    for pos, v in ((pa, a), (pb, b)):
                        if pos == 'note':
                            custom[n - 1]['note'] = v
                        else:
                            fields[n - 1][pos] = v
                    yield 'text-pairs', Content(par, ids, links, fields, custom)
        # two different custom attributes, sparse
        for a in STRINGS[:8]:
            for b in STRINGS[:8]:
                fields = [{'name': 'n%d' % k} for k in range(n)]
                custom = [{} for _ in range(n)]
                custom[0]['note'] = a
                custom[n - 1]['Zeta'] = b
                yield 'sparse-custom', Content(par, ids, links, fields, custom)
    # custom attribute names that the library itself gives a meaning elsewhere (printing, charts) or that resemble its columns:
    # in the file they are ordinary custom columns
    for par, ids, links in shapes[1:3]:
        n = len(par)
        for nm in ('print_color', 'gantt_section', 'gantt_bar_style', 'gantt_text_style', 'network_bar_style', 'tag', 'Name', 'ID',
                   'title', 'level', 'color', 'units', 'calendar'):
            for val in ('92m', 'x y'):
                fields = [{'name': 'n%d' % k} for k in range(n)]
                custom = [{} for _ in range(n)]
                custom[n - 1][nm] = val
                yield 'custom-names', Content(par, ids, links, fields, custom)
    # dates / numbers / flags
    for par, ids, links in shapes[:2]:
        n = len(par)
        for st in DATES:
            for en in DATES:
                for ms in (None, datetime(2024, 3, 1)):
                    for mil in (False, True):
                        fields = [{'name': 'n%d' % k} for k in range(n)]
                        fields[n - 1].update({'start': st, 'end': en, 'milestone': mil})
                        if ms is not None:
                            fields[n - 1]['min_start'] = ms
                        yield 'dates', Content(par, ids, links, fields)
        for e in NUMS:
            for s in NUMS:
                for mil in (False, True):
                    fields = [{'name': 'n%d' % k} for k in range(n)]
                    fields[n - 1].update({'estimate': e, 'spent': s, 'milestone': mil})
                    yield 'numbers', Content(par, ids, links, fields)


_TIER = 'quick'


def check_one(layer, c, tmp, acc):
    from pjplan import read_csv, write_csv
    acc.count('evaluations')
    acc.count('layer:' + layer)
    exp = c.meaning()
    case = {'layer': layer, 'content': c.to_json()}

    def cls():
        if layer == 'structure':
            zero_parent = any(p is not None and c.ids[p] == 0 for p in c.par)
            return 'parent-id-0' if zero_parent else 'structure'
        return layer

    # the three ways to name a file: bare name in the current directory (the README's form), relative with a directory part,
    # absolute. The worker's current directory is its scratch directory.
    f1, f2, f3 = ('f1.csv', './f2.csv', os.path.join(tmp, 'f3.csv')) if os.getcwd() == os.path.realpath(tmp) else \
        tuple(os.path.join(tmp, x) for x in ('f1.csv', 'f2.csv', 'f3.csv'))
    try:
        w = c.build()
        write_csv(w, f1)
        r1 = read_csv(f1)
    except Exception as ex:  # noqa
        acc.violation('C13', f'csv/roundtrip-raised-{type(ex).__name__}/{cls()}', f'write_csv/read_csv raised {type(ex).__name__}: {ex}', case)
        return
    d = diff(exp, meaning_of_wbs(r1))
    if d:
        acc.violation('C13', f'csv/roundtrip-{d[0]}/{cls()}', 'read_csv(write_csv(w)): ' + d[1], case)
    # the written file has the documented layout: the ten fixed columns in order, then one column per custom attribute
    # (and min_start, which is a task field that travels as an extra column), one row per task
    try:
        import csv as _csv
        with open(f1, newline='', encoding='utf-8') as fh:
            rows = list(_csv.reader(fh, delimiter=';'))
        header = rows[0]
        customs = set()
        for cu in c.custom:
            customs |= set(cu)
        extra = set(header[10:])
        if header[:10] != DEFAULT_FIELDS or len(set(header)) != len(header) or not (customs <= extra <= customs | {'min_start'}):
            acc.violation('C13', f'csv/written-header/{cls()}', f'written header {header}, expected {DEFAULT_FIELDS} + custom {sorted(customs)}', case)
        if len(rows) != 1 + len(c.par):
            acc.violation('C13', f'csv/written-row-count/{cls()}', f'{len(rows) - 1} rows for {len(c.par)} tasks', case)
    except Exception as ex:  # noqa
        acc.violation('C13', f'csv/written-file-unreadable-{type(ex).__name__}/{cls()}', f'the written file is not a ;-separated CSV: {ex}', case)
    try:
        write_csv(r1, f2)
        r2 = read_csv(f2)
        write_csv(r2, f3)
        with open(f2, 'rb') as a, open(f3, 'rb') as b:
            b2, b3 = a.read(), b.read()
        if b2 != b3:
            acc.violation('C13', f'csv/not-a-fixpoint/{cls()}', f'second and third generation files differ: {b2[:200]!r} vs {b3[:200]!r}', case)
    except Exception as ex:  # noqa
        acc.violation('C13', f'csv/fixpoint-raised-{type(ex).__name__}/{cls()}', f'second read/write cycle raised {type(ex).__name__}: {ex}', case)
    # a LOADED plan is restructured and written again: the file describes the plan as it is now (a task moved to another parent
    # or to the top level, a dependency added / removed), not as it was when it was read
    if layer == 'structure' and len(c.par) >= 2:
        f4 = os.path.join(tmp, 'f4.csv')
        for edit in ('move-last', 'toggle-link'):
            try:
                r = read_csv(f1)
                ts = list(r.tasks)
                a, z = ts[0], ts[-1]
                if edit == 'move-last':
                    if z.parent is not None:
                        z.parent = None
                    else:
                        z.parent = a
                else:
                    if a in list(z.predecessors):
                        z.predecessors.remove(a)
                    else:
                        z.predecessors.append(a)
            except RuntimeError:
                continue  # the edit is not legal on this structure
            except Exception as ex:  # noqa
                acc.violation('C13', f'csv/edit-of-loaded-raised-{type(ex).__name__}/{cls()}', f'{edit} on a loaded WBS raised {ex}', case)
                continue
            try:
                want = meaning_of_wbs(r)
                write_csv(r, f4)
                got = meaning_of_wbs(read_csv(f4))
                acc.count('rewrite_after_edit')
                d = diff(want, got)
                if d:
                    acc.violation('C13', f'csv/loaded-then-edited-{d[0]}/{edit}', f'a loaded WBS after {edit}, written and read again: ' + d[1], case)
            except Exception as ex:  # noqa
                acc.violation('C13', f'csv/loaded-then-edited-raised-{type(ex).__name__}/{edit}', f'write/read after {edit} raised {ex}', case)
    # hand-written layouts
    for eol, bom, qa in (('\r\n', False, False), ('\n', False, False), ('\r\n', True, False), ('\n', True, False), ('\r\n', False, True), ('\n', False, True)):
        h = os.path.join(tmp, 'h.csv')
        hand_write(c, h, eol, bom, qa)
        acc.count('hand_written_files')
        # read with the default arguments and with the same arguments spelled out (utf-8 text, ';' as delimiter)
        for how, kw in (('', {}), ('/explicit-arguments', {'encoding': 'utf-8', 'delimiter': ';'})):
            if how and layer not in ('structure', 'text'):
                continue
            tag = f'{"bom" if bom else "nobom"}-{"lf" if eol == chr(10) else "crlf"}-{"allquoted" if qa else "minimal"}{how}'
            try:
                rh = read_csv(h, **kw)
            except Exception as ex:  # noqa
                acc.violation('C13', f'csv/handwritten-raised-{type(ex).__name__}/{cls()}/{tag}',
                              f'read_csv of a hand-written file raised {type(ex).__name__}: {ex}', case)
                continue
            d = diff(exp, meaning_of_wbs(rh))
            if d:
                acc.violation('C13', f'csv/handwritten-{d[0]}/{cls()}/{tag}', 'hand-written file: ' + d[1], case)
    # write again after an edit: the second file is the edited WBS (nothing remembered from the first write)
    if layer in ('structure', 'dates'):
        try:
            ts = list(w.tasks)
            ts[-1].name = 'renamed;"x"'
            ts[0].estimate = 7.25
            write_csv(w, f2)
            r3 = meaning_of_wbs(read_csv(f2))
            exp2 = [dict(e) for e in exp]
            exp2[-1]['name'] = 'renamed;"x"'
            exp2[0]['estimate'] = 7.25
            acc.count('rewrite_after_edit')
            d = diff(exp2, r3)
            if d:
                acc.violation('C13', f'csv/stale-after-edit-{d[0]}/{cls()}', 'second write_csv after an edit: ' + d[1], case)
        except Exception as ex:  # noqa
            acc.violation('C13', f'csv/rewrite-raised-{type(ex).__name__}/{cls()}', f'second write raised {ex}', case)
    if any('min_start' in f for f in c.fields):
        h = os.path.join(tmp, 'h.csv')
        hand_write(c, h, '\r\n', False, False, iso_min_start=True)
        acc.count('hand_written_files')
        try:
            d = diff(exp, meaning_of_wbs(read_csv(h)))
            if d:
                acc.violation('C13', f'csv/earlier-version-min_start-{d[0]}/{cls()}', 'file with min_start as written by the earlier version: ' + d[1], case)
        except Exception as ex:  # noqa
            acc.violation('C13', f'csv/earlier-version-min_start-raised-{type(ex).__name__}/{cls()}', f'read_csv raised {ex}', case)
    nontrivial = layer != 'structure' or any(p is not None for p in c.par) or c.links
    if nontrivial:
        acc.count('nontrivial')
    if len(acc.samples) < 2 and layer == 'text-pairs':
        acc.sample(case)


def _work(chunk):
    i, n = chunk
    acc = runtime.Acc()
    tmp = os.path.realpath(tempfile.mkdtemp(prefix='vf_c13_'))
    cwd = os.getcwd()
    try:
        os.chdir(tmp)
        for layer, c in itertools.islice(contents(_TIER), i, None, n):
            check_one(layer, c, tmp, acc)
    finally:
        os.chdir(cwd)
        shutil.rmtree(tmp, ignore_errors=True)
    return acc


def run(rep):
    global _TIER
    _TIER = rep.tier
    nw = runtime.n_workers()
    k = nw * 2
    runtime.run_chunks(_work, [(i, k) for i in range(k)], rep.acc)
    c = rep.acc.counters
    rep.coverage.update({
        'evaluations': c['evaluations'], 'distinct_nontrivial': c['nontrivial'],
        'rule': 'layered product of the content model: forests (<=3/4 tasks) x injective id assignments from {0,-1,1,2,10} x link sets; every '
                'single text position and all pairs over an adversarial alphabet of %d strings; sparse custom attributes; dates x '
                'min_start x milestone; estimate x spent. Each content: write/read round trip, second and third generation byte '
                'comparison, and 6 hand-written layouts (CRLF/LF x BOM/none x minimal/full quoting). non-trivial = contents with '
                'hierarchy, links or non-default fields (contents are distinct by construction)' % len(STRINGS),
        'layers': {k[6:]: v for k, v in c.items() if k.startswith('layer:')}, 'hand_written_files': c['hand_written_files'],
        'exhaustive': True,
    })
    rep.assumptions += ['None, empty string and absent text values are equal; custom values compare as strings',
                        'a BOM followed by a quoted first header cell is left out of the hand-written layouts (DESIGN C13)',
                        'parent_id / predecessor_ids attributes that read_csv leaves on tasks are structure columns, not custom data']


def replay(data):
    rc = 0
    tmp = os.path.realpath(tempfile.mkdtemp(prefix='vf_c13_'))
    cwd = os.getcwd()
    try:
        os.chdir(tmp)
        for ex in data.get('examples', []):
            c = Content.from_json(ex['case']['content'])
            acc = runtime.Acc()
            check_one(ex['case']['layer'], c, tmp, acc)
            for (p, sig), (n, exs) in acc.viol.items():
                print(sig, exs[0]['message'])
                rc = 1
    finally:
        os.chdir(cwd)
        shutil.rmtree(tmp, ignore_errors=True)
    print('REPRODUCED' if rc else 'not reproduced')
    return rc
