"""C20: printed sheets (text tables) parsed back into cells (Engine C)."""
import contextlib
import io
import itertools
import re
from datetime import datetime, timedelta

from .. import runtime, seams
from ..sched import layers as LY
from ..sched.scenario import Scenario, execute, MON, DAY

LEVEL = 'exploration'

CELL = re.compile('\033\\[(\\d+m)(.*?)\033\\[0m', re.S)
NAMES = [None, '', 'a', 'n' * 20, 'w' * 300]  # 300: wider than any fixed padding buffer
LONG = 'v' * 30
FIELDSETS = [None, ['id'], ['name'], ['resource'], ['estimate'], ['spent'], ['start'], ['end'], ['predecessors'], ['successors'],
             ['parent'], ['id', 'name', 'nosuch'], ['TAG', 'name'], ['id', 'children', 'name'], ['wbs', 'all_parents', 'name'],
             ['all_children', 'all_successors', 'PREDECESSORS', 'to_dict'], ['name', 'id', 'predecessors', 'successors', 'parent', 'tag', 'milestone']]
DEFAULT_FIELDS = ['id', 'name', 'resource', 'estimate', 'spent', 'start', 'end', 'predecessors']
THEMES = [None, {'header_color': '91m', 'level_colors': ['94m']}, {'level_colors': ['96m', '93m', '95m', '91m']},
          # colourless output (a log file, a terminal without colours): no colour for the header and / or for some levels
          {'header_color': None, 'level_colors': [None]}, {'header_color': '91m', 'level_colors': ['94m', None, '95m']}]


ANSI = re.compile('\033\\[[0-9;]*m')


def column_offsets(header, fl):
    """Offsets at which the header names start (the statement fixes no separator and no colouring: columns are recovered from
    the header text alone, names in order, separated by blanks); None if the header is not the field names in order."""
    offs = []
    pos = 0
    for f in fl:
        name = f.upper()
        while pos < len(header) and header[pos] == ' ':
            pos += 1
        if header[pos:pos + len(name)] != name:
            return None
        offs.append(pos)
        pos += len(name)
        if pos < len(header) and header[pos] != ' ':
            return None
    if header[pos:].strip() != '':
        return None
    return offs


def build(par, links, names, vals, ext_link):
    from pjplan import Task, WBS
    n = len(par)
    objs = []
    for i in range(n):
        kw = {'name': names[i]}
        if vals[i] is not None:
            kw['tag'] = vals[i]
            kw['resource'] = vals[i] or None
        objs.append(Task(i, estimate=None if i % 2 else 3, **kw))  # ids start at 0 (a falsy id is an id)
    w = WBS()
    for i, t in enumerate(objs):
        if par[i] is None:
            w.roots.append(t)
        else:
            objs[par[i]].children.append(t)
    for p, s in links:
        objs[s].predecessors.append(objs[p])
    ext = None
    if ext_link is not None:
        y = WBS()
        ext = Task(0, 'ext')  # an outside task sharing the (falsy) id of a member
        y.roots.append(ext)
        kind, i = ext_link
        if kind == 'p':
            objs[i].predecessors.append(ext)
        else:
            objs[i].successors.append(ext)
    return w, objs, ext


def dfs(par, roots, children_on):
    out = []

    def rec(i, lvl):
        out.append((i, lvl))
        if children_on:
            for c in range(len(par)):
                if par[c] == i:
                    rec(c, lvl + 1)
    for r in roots:
        rec(r, 0)
    return out


class _Links(list):
    """A dependency cell read for what the statement fixes: which ids are shown and which of them are marked as external.
    Brackets, the separator's blanks and the order of the ids are layout the statement leaves open."""

    def __eq__(self, other):
        return sorted(self) == sorted(other)

    def __ne__(self, other):
        return not self.__eq__(other)


def expected_link_cell(t, linked):
    return _Links((str(o.id), o.wbs is not t.wbs) for o in linked)


def parse_link_cell(body):
    s_ = body.strip()
    if s_[:1] in '[(' and s_[-1:] in '])':
        s_ = s_[1:-1]
    out = _Links()
    for item in s_.split(','):
        item = item.strip()
        if not item:
            continue
        ext = 'external' in item.lower()
        if ext and '(' in item:
            item = item[:item.index('(')].strip()
        out.append((item, ext))
    return out


def check_sheet(text, shown, objs, fields, V, P):
    lines = [ANSI.sub('', l) for l in text.split('\n')]
    if len(lines) != 1 + len(shown):
        V('line-count', f'{len(lines)} lines for {len(shown)} tasks shown')
        return
    fl = fields if fields is not None else DEFAULT_FIELDS
    widths = {len(l) for l in lines}
    if len(widths) != 1:
        V('lines-differ-in-width', f'line widths {sorted(widths)}')
    offs = column_offsets(lines[0], fl)
    if offs is None:
        V('header-wrong', f'header {lines[0]!r} is not the field names {[f.upper() for f in fl]} in order')
        return
    ends = offs[1:] + [max(len(l) for l in lines)]
    rows = []
    for l in lines:
        if l[:offs[0]].strip() != '':
            V('text-before-first-column', f'line {l!r}')
        # a cell is the text below its header name up to the next header name; the blank before the next column is not part of it
        rows.append([' ' + l[a_:b_] for a_, b_ in zip(offs, ends)])
    for ci in range(len(fl)):
        col = [r[ci] for r in rows]
        for c in col[1:]:
            if ci + 1 < len(fl) and not c.endswith(' '):
                V('column-too-narrow', f'column {fl[ci]}: cell {c!r} runs into the next column')
                break
    for (i, lvl), r in zip(shown, rows[1:]):
        t = objs[i]
        for ci, f in enumerate(fl):
            cell = r[ci]
            body = cell[1:].rstrip(' ') if cell.startswith(' ') else cell
            if f == 'name':
                exp = '   ' * lvl + (t.name or '')
                if cell[1:1 + len(exp)] != exp or cell[1 + len(exp):].strip() != '':
                    V('name-indent', f'task {t.id} at level {lvl}: name cell {cell!r}, expected {exp!r}')
                if lvl > 0:
                    P('indented-task')
            elif f in ('nosuch', 'children', 'wbs', 'all_parents', 'all_children', 'all_successors', 'PREDECESSORS', 'to_dict'):
                # not a sheet column and not an attribute stored on the task: an unknown field. The statement fixes the layout for
                # "any choice of fields including unknown ones", not what such a cell shows (empty today; a renderer that treats
                # column names case-insensitively shows the predecessors under PREDECESSORS): the layout clauses above apply, and
                # the cell must not be an object dump (a bound method, a list of task sheets)
                if 'object at 0x' in cell or '<bound method' in cell or '\x1b' in cell:
                    V('unknown-field-dumps-object', f'task {t.id}: {cell!r}')
                P('unknown-field')
            elif f == 'predecessors':
                if parse_link_cell(body) != expected_link_cell(t, list(t.predecessors)):
                    V('predecessors-cell', f'task {t.id}: {body!r}, expected {expected_link_cell(t, list(t.predecessors))!r}')
                if any(o.wbs is not t.wbs for o in t.predecessors):
                    P('external-link')
            elif f == 'successors':
                if parse_link_cell(body) != expected_link_cell(t, list(t.successors)):
                    V('successors-cell', f'task {t.id}: {body!r}, expected {expected_link_cell(t, list(t.successors))!r}')
                if any(o.wbs is not t.wbs for o in t.successors):
                    P('external-link')
            elif f == 'parent':
                exp = '' if t.parent is None else str(t.parent.id)
                if body != exp:
                    V('parent-cell', f'task {t.id}: {body!r}, expected {exp!r}')
            elif f == 'id':
                if body != str(t.id):
                    V('id-cell', f'task {t.id}: {body!r}')


_TIER = 'quick'


def jobs(tier):
    out = []
    nmax = 4
    for n in range(1, nmax + 1):
        for par in LY.forests(n):
            linksets = [(), ] + [ls for ls in LY.link_sets(par, 1) if ls][:3]
            for links in linksets:
                for ni, nv in enumerate(itertools.product(range(len(NAMES)), repeat=min(n, 2))):
                    names = [NAMES[nv[i % len(nv)]] for i in range(n)]
                    if tier == 'quick' and n >= 3 and ni % 3:
                        continue
                    for vv in ([None] * n, [''] + ['b'] * (n - 1), [LONG] + [None] * (n - 1)):
                        for ext_link in (None, ('p', n - 1), ('s', 0)):
                            out.append((par, links, names, vv, ext_link))
    return out


def _work(chunk):
    i, k = chunk
    acc = runtime.Acc()
    for (par, links, names, vals, ext_link) in jobs(_TIER)[i::k]:
        w, objs, ext = build(par, links, names, vals, ext_link)
        roots = [j for j in range(len(par)) if par[j] is None]
        for fields in FIELDSETS:
            for children_on in (True, False):
                for ti, theme in enumerate(THEMES):
                    if _TIER == 'quick' and ti and fields not in (None, ['name']):
                        continue
                    for entry in ('wbs', 'task', 'list', 'print'):
                        if entry != 'wbs' and (fields is not None or theme is not None or not children_on) and entry != 'print':
                            continue  # repr() takes no arguments; arguments go through print()
                        case = {'parents': list(par), 'links': [list(x) for x in links], 'names': names, 'values': vals,
                                'ext_link': list(ext_link) if ext_link else None, 'fields': fields, 'children': children_on,
                                'theme': theme, 'entry': entry}

                        def V(clause, msg):
                            acc.violation('C20', f'sheet/{clause}/{entry}', msg, case)

                        def P(name):
                            acc.count('premise:' + name)
                        try:
                            if entry == 'wbs':
                                if fields is None and theme is None and children_on:
                                    text = repr(w)
                                    shown = dfs(par, roots, True)
                                else:
                                    continue
                            elif entry == 'task':
                                text = repr(objs[0])
                                shown = dfs(par, [0], True)
                            elif entry == 'list':
                                text = repr(w.roots)
                                shown = dfs(par, roots, True)
                            else:
                                buf = io.StringIO()
                                with contextlib.redirect_stdout(buf):
                                    w.print(fields=fields, children=children_on, theme=theme)
                                text = buf.getvalue()
                                if not text.endswith('\n'):
                                    V('print-no-newline', 'print() output does not end with a newline')
                                text = text[:-1]
                                shown = dfs(par, roots, children_on)
                                buf2 = io.StringIO()
                                with contextlib.redirect_stdout(buf2):
                                    objs[0].print(fields=fields, children=children_on, theme=theme)
                                check_sheet(buf2.getvalue()[:-1], dfs(par, [0], children_on), objs, fields, V, P)
                                buf3 = io.StringIO()
                                with contextlib.redirect_stdout(buf3):
                                    w.roots.print(fields=fields, children=children_on, theme=theme)
                                check_sheet(buf3.getvalue()[:-1], dfs(par, roots, children_on), objs, fields, V, P)
                                acc.count('evaluations', 2)
                        except Exception as ex:  # noqa
                            V('raised-' + type(ex).__name__, f'{type(ex).__name__}: {ex}')
                            continue
                        acc.count('evaluations')
                        check_sheet(text, shown, objs, fields, V, P)
                        if len(shown) > 1:
                            acc.count('nontrivial')
                        if entry == 'print' and ext is not None:
                            # a dependency list is a task list too; with a link to another plan its rows belong to DIFFERENT plans,
                            # and each row's own plan decides which of its links are marked (external)
                            i_ = ext_link[1]
                            for lname, lst_ in (('predecessors', objs[i_].predecessors), ('successors', objs[i_].successors),
                                                ('all-of-ext', ext.successors if ext_link[0] == 'p' else ext.predecessors)):
                                members_ = list(lst_)
                                if not members_:
                                    continue
                                both = objs + [ext]
                                shown_ = []

                                def rec_(t_, lvl_):
                                    shown_.append((next(k_ for k_, o_ in enumerate(both) if o_ is t_), lvl_))
                                    if children_on:
                                        for c_ in t_.children:
                                            rec_(c_, lvl_ + 1)
                                for t_ in members_:
                                    rec_(t_, 0)
                                buf4 = io.StringIO()
                                try:
                                    with contextlib.redirect_stdout(buf4):
                                        lst_.print(fields=fields, children=children_on, theme=theme)
                                except Exception as ex:  # noqa
                                    V('raised-' + type(ex).__name__, f'{lname}.print: {type(ex).__name__}: {ex}')
                                    continue
                                acc.count('evaluations')
                                acc.count('premise:link-list-sheet')
                                check_sheet(buf4.getvalue()[:-1], shown_, both, fields,
                                            lambda c_, m_, lname=lname: acc.violation('C20', f'sheet/{c_}/link-list', f'{lname} of task {i_}: {m_}', case), P)
        # print again after an edit: the sheet is the one of the edited tasks (widths, indentation, cells)
        if ext_link is None and vals[0] is None:
            first = repr(w)
            # list and task objects obtained and shown BEFORE the edit, shown again after it
            held_roots, held_kids, held_query = w.roots, objs[0].children, w.tasks(id=objs[0].id)
            for h in (held_roots, held_kids, held_query, objs[0]):
                repr(h)
            objs[-1].name = 'a much longer name than before'
            objs[0].tag = 'new'
            case_h = {'parents': list(par), 'names': names, 'edit': 'rename the last task; lists / task shown before the edit are shown again'}
            for hname, h, start in (('roots', held_roots, roots), ('children', held_kids, [j for j in range(len(par)) if par[j] == 0]),
                                    ('query', held_query, [0]), ('task', objs[0], [0])):
                acc.count('evaluations')
                acc.count('reprint_after_edit')
                check_sheet(repr(h), dfs(par, start, True), objs, None,
                            lambda c_, m_, hname=hname: acc.violation('C20', f'sheet/{c_}/held-{hname}-after-edit', m_, case_h), lambda n_: None)
            if len(par) >= 2 and par[-1] is not None:
                try:
                    objs[-1].parent = None
                except RuntimeError:
                    pass
            par2 = [None if t.parent is None else objs.index(t.parent) for t in objs]
            roots2 = [objs.index(t) for t in w.roots]
            acc.count('evaluations')
            acc.count('reprint_after_edit')
            case = {'parents': list(par), 'names': names, 'edit': 'rename last task, move it to the root level'}
            check_sheet(repr(w), dfs(par2, roots2, True), objs, None, lambda c_, m_: acc.violation('C20', f'sheet/{c_}/after-edit', m_, case),
                        lambda n_: None)
        if len(acc.samples) < 1 and len(par) >= 3:
            acc.sample({'parents': list(par), 'names': names, 'sheet': [CELL.sub(lambda m: m.group(2), l) for l in repr(w).split('\n')]})
    return acc


def usage_tables(acc):
    """(f) usage report: one header line + one line per calendar day between the first and last reservation."""
    seams.install_clock()
    gens = itertools.chain(itertools.islice(LY.L3('quick', ('fwd', 'bwd'), (True,), cals=['sparse', 'direct', 'none']), 0, None, 7),
                           (s for s in LY.L1('quick', anchors=[MON]) if len(s.tasks) >= 2))
    for sc in gens:
        ex = execute(sc)
        if ex.status != 'ok':
            continue
        rep_ = ex.result.resource_usage
        rows = rep_.rows()
        text = repr(rep_)
        acc.count('evaluations')
        case = {'scenario': sc.to_json()}
        if not rows:
            if text != 'Empty':
                acc.violation('C20', 'usage/empty-report', f'report without rows prints {text!r}', case)
            continue
        lo, hi = min(r.date for r in rows), max(r.date for r in rows)
        days = (hi - lo).days + 1
        lines = text.split('\n')
        acc.count('nontrivial')
        if days > 1:
            acc.count('premise:multi-day-usage')
        if rows[0].date != lo or rows[-1].date != hi:
            acc.count('premise:first-or-last-row-not-the-extreme-day')
        if len(lines) != 1 + days:
            acc.violation('C20', 'usage/line-count', f'{len(lines)} lines for {days} days between first and last reservation', case)
            continue
        plain = [CELL.sub(lambda m: m.group(2), l) for l in lines]
        if len({len(p) for p in plain}) != 1:
            acc.violation('C20', 'usage/lines-differ-in-width', f'widths {[len(p) for p in plain]}', case)
        for k, p in enumerate(plain[1:]):
            d = (lo + timedelta(days=k)).strftime('%y-%m-%d')
            if d not in p.split('|')[1]:
                acc.violation('C20', 'usage/day-sequence', f'line {k + 1} is {p!r}, expected day {d}', case)
                break


def run(rep):
    global _TIER
    _TIER = rep.tier
    nw = runtime.n_workers()
    k = nw * 2
    runtime.run_chunks(_work, [(i, k) for i in range(k)], rep.acc)
    usage_tables(rep.acc)
    c = rep.acc.counters
    rep.coverage.update({
        'evaluations': c['evaluations'], 'distinct_nontrivial': c['nontrivial'],
        'rule': 'all hierarchies with <=4 tasks x link placements (inside and to another WBS) x name patterns from {None, "", "a", 20 chars} x '
                'attribute values of length 0/1/30 x %d field selections x children on/off x %d themes x entry points repr(WBS)/repr(task)/'
                'repr(list)/print(); cells recovered by splitting on colour escapes. plus usage tables of L3 schedules. non-trivial = sheets '
                'showing more than one task' % (len(FIELDSETS), len(THEMES)),
        'premises': {k[8:]: v for k, v in c.items() if k.startswith('premise:')}, 'exhaustive': True,
    })
    rep.assumptions += ['single-line values; themes define level_colors (the documented shape)',
                        'task lists given with children=True are antichains (root lists)']


def replay(data):
    for ex in data.get('examples', []):
        print(ex['message'], ex['case'])
    return 1
