"""C19: renderings parsed the way their consumers parse them (Engine C on Engine B output)."""
import html
import itertools
import json
import re
from datetime import datetime, timedelta
from html.parser import HTMLParser

from .. import runtime, seams
from ..sched import layers as LY
from ..sched.scenario import Scenario, execute, MON, DAY

LEVEL = 'exploration'

NAMES = ['a', 'a b', '"q"', "it's", '{x}', '}}', 'a}} --> 9{{b', '<b>', '</script>', '</div>', '$x', '${y}', 'a:b', 'ü—名',
         '&amp;', '<!--', 'a<b', '{{', ']]>', '\\', '%%c', "'; alert(1); '",
         # words that are literals of the languages the pages are written in
         'Triage False alarms', 'True', 'None of these', 'null and undefined',
         # the names of the page templates' own placeholders
         'in $styles x', '$src', '${styles}', '$gantt_data $columns', '$task_classes_def', '$today_marker $scale $root $readonly $row_height']


class _Frames(HTMLParser):
    def __init__(self):
        super().__init__(convert_charrefs=True)
        self.docs = []

    def handle_starttag(self, tag, attrs):
        if tag == 'iframe':
            self.docs += [v for k, v in attrs if k == 'srcdoc' and v is not None]


def srcdocs(markup):
    """srcdoc attribute values of the iframes in a notebook representation, as an HTML consumer reads them (entities decoded;
    attribute order, further attributes and the way of escaping are not fixed by the statement)."""
    f = _Frames()
    f.feed(markup)
    f.close()
    return f.docs


class Doc(HTMLParser):
    """Minimal consumer model: text content of div.mermaid (tags dropped, entities decoded), raw script bodies."""

    def __init__(self):
        super().__init__(convert_charrefs=True)
        self.mermaid = []
        self.in_mermaid = 0
        self.scripts = []
        self.in_script = False
        self.cur = []
        self.divs_closed_inside = 0

    def handle_starttag(self, tag, attrs):
        if tag == 'script':
            self.in_script = True
            self.cur = []
        if tag == 'div':
            if dict(attrs).get('class') == 'mermaid' and not self.in_mermaid:
                self.in_mermaid = 1
            elif self.in_mermaid:
                self.in_mermaid += 1

    def handle_endtag(self, tag):
        if tag == 'script' and self.in_script:
            self.in_script = False
            self.scripts.append(''.join(self.cur))
        if tag == 'div' and self.in_mermaid:
            self.in_mermaid -= 1

    def handle_data(self, data):
        if self.in_script:
            self.cur.append(data)
        elif self.in_mermaid:
            self.mermaid.append(data)


def parse_doc(text):
    d = Doc()
    d.feed(text)
    d.close()
    return d


GANTT_LINE = re.compile(r'^\s*(?P<name>[^:]*): (?P<state>(?:milestone,|done,|active,)?) id_(?P<id>-?\w+), '
                        r'(?P<start>\d\d\.\d\d\.\d{4} \d\d:\d\d), (?P<end>\d\d\.\d\d\.\d{4} \d\d:\d\d)\s*$')
HEADER = re.compile(r'^\s*(gantt|dateFormat .*|title .*|excludes weekends|tickInterval .*)\s*$')


MERMAID_TOKENS = [('YYYY', '%Y'), ('MM', '%m'), ('DD', '%d'), ('HH', '%H'), ('mm', '%M'), ('ss', '%S')]


def mermaid_format(header_fmt):
    """strptime format for a Mermaid dateFormat such as 'DD.MM.YYYY HH:mm' or 'YYYY-MM-DD HH:mm'."""
    out = header_fmt.strip()
    for tok, py in MERMAID_TOKENS:
        out = out.replace(tok, py)
    return out


def parse_gantt(src):
    """Returns (entries, problems). entries: list of dict(id, state, start, end, section, name); start / end are the texts of the
    line and, as 'start_dt' / 'end_dt', the instants they denote under the chart's own dateFormat header."""
    entries, problems = [], []
    section = None
    fmt = '%d.%m.%Y %H:%M'
    for ln in src.split('\n'):
        m = re.match(r'^\s*dateFormat\s+(.*\S)\s*$', ln)
        if m:
            fmt = mermaid_format(m.group(1))
    for ln in src.split('\n'):
        if not ln.strip():
            continue
        if HEADER.match(ln):
            continue
        m = re.match(r'^\s*section (.*)$', ln)
        if m:
            section = m.group(1)
            continue
        e = parse_gantt_task(ln, fmt)
        if e is not None:
            e['section'] = section
            entries.append(e)
        else:
            problems.append(ln)
    return entries, problems


GANTT_TAGS = {'done', 'active', 'crit', 'milestone'}


def parse_gantt_task(ln, fmt='%d.%m.%Y %H:%M'):
    """A task line as Mermaid reads it: title up to the first colon, then comma-separated metadata (blanks around the items
    do not matter): any of the tags done / active / crit / milestone, then the id (behind the prefix that makes it a valid Mermaid
    identifier, `id_` today), the start and the end in the chart's dateFormat."""
    m = re.match(r'^\s*([^:]*):(.*)$', ln)
    if not m:
        return None
    items = [x.strip() for x in m.group(2).split(',')]
    tags = []
    while items and items[0] in GANTT_TAGS:
        tags.append(items.pop(0))
    if len(items) != 3:
        # the dates may contain a colon, the first one ends the title: re-join what the split on ':' cannot have broken (nothing)
        return None
    mi = re.match(r'^(?:[A-Za-z]+_)?(-?\w+)$', items[0])
    if not mi:
        return None
    try:
        sdt, edt = datetime.strptime(items[1], fmt), datetime.strptime(items[2], fmt)
    except ValueError:
        return None
    return {'name': m.group(1), 'state': 'milestone,' if 'milestone' in tags else '', 'tags': tuple(tags), 'id': mi.group(1),
            'start': items[1], 'end': items[2], 'start_dt': sdt, 'end_dt': edt}


def parse_network(src):
    """Flowchart tokenisation: a node is `id{{text}}` (text ending at the first '}}'), `0((Start))`, or a bare id; a line is an
    edge `node --> node` or the declaration of one node; styling statements and comments are skipped."""
    edges, problems, styles = [], [], 0
    lines = [l for l in src.split('\n') if l.strip()]
    if not lines or lines[0].strip() != 'flowchart LR':
        problems.append('missing header')

    def node(s):
        if s.startswith('0((Start))'):
            return '0', s[len('0((Start))'):]
        m = re.match(r'^(-?\w+)\{\{', s)
        if m:
            rest = s[m.end():]
            if rest.startswith('"'):
                # a quoted label ends at the closing quote (Mermaid reads '}}' inside quotes as text)
                q = rest.find('"', 1)
                if q >= 0 and rest[q + 1:q + 3] == '}}':
                    return m.group(1), rest[q + 3:]
            k = rest.find('}}')
            if k < 0:
                return None, s
            return m.group(1), rest[k + 2:]
        m = re.match(r'^(-?\w+)(?=\s|$)', s)
        if m:
            return m.group(1), s[m.end():]
        return None, s

    for ln in lines[1:]:
        s = ln.strip()
        if s.startswith(('style ', 'classDef ', 'class ', 'linkStyle ', 'click ', '%%')):
            # styling statements and comments are no edges (the statement counts edges only)
            styles += 1
            continue
        a, rest = node(s)
        if a is None:
            problems.append(ln)
            continue
        if not rest.strip():
            continue  # a node declared on its own line: no edge
        if not rest.startswith(' --> '):
            problems.append(ln)
            continue
        b, rest2 = node(rest[5:])
        if b is None or rest2.strip():
            problems.append(ln)
            continue
        edges.append((a, b))
    return edges, problems


def extract_dhtmlx(doc):
    """The embedded JSON document: the literal argument of gantt.parse(...) or, where the page keeps its data in a JSON data
    block (<script type="application/json">) and parses that, the content of the block that holds the task entries."""
    err = None
    for s in doc.scripts:
        k = s.find('gantt.parse(')
        if k >= 0:
            body = s[k + len('gantt.parse('):]
            e = body.rfind(');')
            if e < 0:
                err = 'no closing );'
                continue
            try:
                return json.loads(body[:e]), None
            except ValueError as ex:
                err = 'JSON error: ' + str(ex)[:80]
    blocks = 0
    for s in doc.scripts:
        t = s.strip()
        if t and t[0] in '{[':
            blocks += 1
            try:
                d = json.loads(t)
            except ValueError as ex:
                return None, 'JSON error in a data block: ' + str(ex)[:80]
            if isinstance(d, dict) and 'data' in d:
                return d, None
    return None, err or 'gantt.parse( not found in any script element'


def shapes(tier):
    out = []
    for par, links in LY.structures(3, 2, 2):
        if LY.leaf_cycle(par, links):
            continue
        out.append((par, links))
    return out


_TIER = 'quick'


def render_all(sc_res, clock):
    from pjplan import MermaidGantt, MermaidNetwork, DhtmlxGantt
    w = sc_res
    seams.CLOCK.set_const(clock)
    out = {}
    for name, cls in (('gantt', MermaidGantt), ('network', MermaidNetwork), ('dhtmlx', DhtmlxGantt)):
        try:
            r = cls(w)
            out[name] = (r.to_html(), r._repr_html_())
        except Exception as ex:  # noqa
            out[name] = ex
    return out


def analyse(kind, page, tasks, links):
    """Returns a canonical description of the entries the consumer sees: dict id -> entry (+ problems)."""
    doc = parse_doc(page)
    if kind == 'gantt':
        entries, problems = parse_gantt(''.join(doc.mermaid))
        return {'entries': entries, 'problems': problems}
    if kind == 'network':
        edges, problems = parse_network(''.join(doc.mermaid))
        return {'edges': edges, 'problems': problems}
    data, err = extract_dhtmlx(doc)
    return {'data': data, 'error': err}


IDMAPS = {'plain': None, 'multi-digit': [1, 12, 11, 2], 'strings': ['a', 'bc', 'ab', 'c']}


def check(par, links, names, milestones, sections, clock_off, acc, base_cache, spent=None, idmap=None):
    """One scheduled WBS x one rendering configuration."""
    n = len(par)
    lv = [i for i in range(n) if LY.is_leaf(par, i)]
    attrs = {i: {'estimate': 4, 'resource': 'A'} for i in lv}
    with_ext = spent == ('ext',)
    with_attrs = spent == ('attrs',)
    if with_ext or with_attrs or spent == ('big',):
        spent = None
    if spent is not None:
        for k, i in enumerate(lv):
            attrs[i]['spent'] = spent[k % len(spent)]
    for i in milestones:
        if i in lv:
            attrs[i] = {'milestone': True, 'resource': 'A'}
    tl = LY.mk_tasks(par, attrs)
    if idmap is not None:
        tl = [(idmap[k], p, a) for k, (_, p, a) in enumerate(tl)]
    ext, ext_links = [], []
    if with_ext:
        # the last task also waits for a task of another, already scheduled plan (id 101, not an id of this WBS)
        ext = [(101, {'start': MON - 10 * DAY, 'end': MON - 9 * DAY, 'estimate': 4})]
        ext_links = [(('e', 0), ('x', n - 1))]
    sc = Scenario('fwd', True, MON, tl, list(links), clock=MON - 30 * DAY, layer='C19', ext=ext, ext_links=ext_links)
    ex = execute(sc)
    if ex.status != 'ok':
        raise runtime.HarnessError('C19 input did not schedule: ' + sc.key())
    w = ex.result.schedule
    tasks = list(w.tasks)
    by_id = {t.id: t for t in tasks}
    order_ids = [x[0] for x in tl]
    for i, t in enumerate(sorted(tasks, key=lambda t: order_ids.index(t.id))):
        t.name = names[i]
        if sections.get(i) is not None:
            t.gantt_section = sections[i]
    tasks[0].gantt_bar_style = {'fill': 'red'}
    tasks[-1].network_bar_style = {'fill': '#fff'}
    if with_attrs:
        # custom attributes that happen to be named like keys of the embedded entries: they are the user's data, the entry's
        # own id / name / dates / progress / type stay what the task says
        for t_, extra in zip(tasks, ({'progress': 40, 'type': 'bug', 'open': False}, {'text': 'see ticket 4711', 'start_date': 'tbd'},
                                     {'end_date': 'tbd', 'css_class': 'x', 'parent': 99, 'source': 1, 'target': 2})):
            for k_, v_ in extra.items():
                try:
                    setattr(t_, k_, v_)
                except (AttributeError, RuntimeError, TypeError):
                    pass  # a name the Task class reserves (e.g. parent) is not a custom attribute
    # a dependency named twice when the list is assigned (two merged lists: [a, b, a]) is still one dependency
    for t in tasks:
        ps = list(t.predecessors)
        if len(ps) >= 2:
            t.predecessors = [ps[0], ps[1], ps[0]] + ps[2:]
    clock = MON + clock_off
    pages = render_all(w, clock)
    deps = []
    for t in tasks:
        seen_p = set()
        for p in t.predecessors:
            if id(p) not in seen_p:  # the same task listed twice is one dependency
                seen_p.add(id(p))
                deps.append((p.id, t.id))
    res = {}
    for kind in ('gantt', 'network', 'dhtmlx'):
        r = pages[kind]
        if isinstance(r, Exception):
            res[kind] = ('raised', type(r).__name__ + ': ' + str(r)[:100])
            continue
        page, iframe = r
        res[kind] = ('ok', analyse(kind, page, tasks, deps), page, iframe)
    return w, tasks, deps, res, clock


def verify(kind, tasks, deps, an, adv_id, V, clock):
    ids = [str(t.id) for t in tasks]
    if kind == 'gantt':
        ent = an['entries']
        got = sorted(e['id'] for e in ent)
        if an['problems']:
            V('gantt/unparsable-line', f'lines that are neither header, section nor task: {an["problems"][:2]}')
        if got != sorted(ids):
            V('gantt/task-lines-not-one-per-task', f'task lines for ids {got}, tasks {sorted(ids)}')
            return
        secs = {str(t.id): (t.gantt_section if 'gantt_section' in t.__dict__ else '-') for t in tasks}
        multi = len(set(secs.values())) > 1
        for e in ent:
            t = next(t for t in tasks if str(t.id) == e['id'])
            if e['start_dt'] != t.start.replace(second=0, microsecond=0) or e['end_dt'] != t.end.replace(second=0, microsecond=0):
                V('gantt/dates-wrong', f'task {t.id}: line has {e["start"]} - {e["end"]}, task {t.start} - {t.end}')
            if (e['state'] == 'milestone,') != bool(t.milestone):
                V('gantt/milestone-flag-wrong', f'task {t.id}: state {e["state"]!r}, milestone={t.milestone}')
            # grouped under its section: a task line below a section header must be below ITS section; when all tasks
            # share one section the header may be omitted (as the code does today) or present
            if e['section'] is not None and e['section'] != str(secs[e['id']]):
                V('gantt/wrong-section', f'task {t.id} listed under section {e["section"]!r}, its section is {secs[e["id"]]!r}')
            if e['section'] is None and multi:
                V('gantt/wrong-section', f'task {t.id} is not under any section header although the chart has several sections')
    elif kind == 'network':
        if an['problems']:
            V('network/unparsable-line', f'lines that are not edges: {an["problems"][:2]}')
        exp = sorted([(str(p), str(t)) for p, t in deps] + [('0', str(t.id)) for t in tasks if len(t.predecessors) == 0])
        if sorted(an['edges']) != exp:
            V('network/edges-differ', f'edges {sorted(an["edges"])}, expected {exp}')
    else:
        if an['data'] is None:
            V('dhtmlx/json-not-wellformed', an['error'])
            return
        d = an['data']
        data = d.get('data', [])
        if sorted(str(x.get('id')) for x in data) != sorted(ids):
            V('dhtmlx/entries-not-one-per-task', f'entries {[x.get("id") for x in data]}')
            return
        for x in data:
            t = next(t for t in tasks if t.id == x['id'])
            if x.get('text') != t.name:
                V('dhtmlx/name-wrong', f'task {t.id}: text {x.get("text")!r}, name {t.name!r}')
            if x.get('start_date') != t.start.strftime('%d-%m-%Y %H:%M') or x.get('end_date') != t.end.strftime('%d-%m-%Y %H:%M'):
                V('dhtmlx/dates-wrong', f'task {t.id}: {x.get("start_date")} - {x.get("end_date")}')
            if x.get('parent') != (t.parent.id if t.parent is not None else 0):
                V('dhtmlx/parent-wrong', f'task {t.id}: parent {x.get("parent")}')
            pr = x.get('progress')
            if not isinstance(pr, (int, float)) or not 0 <= pr <= 1:
                V('dhtmlx/progress-out-of-range', f'task {t.id}: progress {pr}')
            if (x.get('type') == 'milestone') != bool(t.milestone):
                V('dhtmlx/milestone-type-wrong', f'task {t.id}: type {x.get("type")}')
        lk = d.get('links', [])
        if sorted((l.get('source'), l.get('target')) for l in lk) != sorted(deps):
            V('dhtmlx/links-differ', f'links {[(l.get("source"), l.get("target")) for l in lk]}, dependencies {deps}')
        lids = [l.get('id') for l in lk]
        if len(set(lids)) != len(lids):
            V('dhtmlx/link-ids-not-unique', f'link ids {lids}')


def others(kind, an, adv):
    """Entries of all tasks except the one carrying the adversarial name (for the 'cannot alter other entries' clause)."""
    if kind == 'gantt':
        return sorted((e['id'], e['name'].strip(), e['state'], e['start'], e['end'], e['section']) for e in an['entries'] if e['id'] != str(adv))
    if kind == 'network':
        return sorted(an['edges'])
    if an['data'] is None:
        return None
    return (sorted(json.dumps(x, sort_keys=True) for x in an['data'].get('data', []) if x.get('id') != adv),
            sorted(json.dumps(l, sort_keys=True) for l in an['data'].get('links', [])))


def _work(chunk):
    i, n = chunk
    acc = runtime.Acc()
    seams.install_clock()
    sh = shapes(_TIER)
    jobs = []
    for par, links in sh:
        k = len(par)
        ms_opts = [(), (k - 1,)] if _TIER == 'quick' else [(), (k - 1,), (0,)]
        sec_opts = [{}, {0: 'S1'}, {j: 'S%d' % (j % 2) for j in range(k)}]
        for ms in ms_opts:
            for sec in sec_opts:
                for clock_off in (timedelta(days=-5), timedelta(hours=2), timedelta(days=30)):
                    for pos in range(k):
                        jobs.append((par, links, ms, sec, clock_off, pos, None))
        # work already spent (less than, equal to and more than the estimate): progress must stay within 0..1
        for spent in ((2,), (4, 12), (12, 0)):
            for clock_off in (timedelta(days=-5), timedelta(hours=2)):
                jobs.append((par, links, (), {}, clock_off, 0, spent))
        # a dependency on a task outside the rendered WBS is a dependency: it gets its link / edge like the others
        for clock_off in (timedelta(hours=2),):
            jobs.append((par, links, (), {}, clock_off, 0, ('ext',)))
            jobs.append((par, links, (k - 1,), {}, clock_off, 0, ('attrs',)))
    # deeper and wider hierarchies (every forest of 4 and 5 tasks with at least three levels, one link): parent ids of the embedded
    # entries when several summaries stand side by side, one rendering configuration each
    for nn in (4, 5):
        for par in LY.forests(nn):
            if max(len(LY.ancestors(par, i)) for i in range(nn)) < 2:
                continue
            cand = LY.link_candidates(par)
            lk = ()
            for cnd in cand:
                if not LY.leaf_cycle(par, (cnd,)):
                    lk = (cnd,)
                    break
            jobs.append((par, lk, (), {}, timedelta(hours=2), 0, ('big',)))
    # ids with several digits / characters: two different links may concatenate to the same text ("1"+"12" == "11"+"2")
    flat4 = (None, None, None, None)
    for links in LY.link_sets(flat4, 2):
        if links and not LY.direct_cycle(4, links):
            for idk in ('multi-digit', 'strings'):
                jobs.append((flat4, links, (), {}, timedelta(hours=2), 0, ('ids', idk)))
    for (par, links, ms, sec, clock_off, pos, spent) in jobs[i::n]:
        idmap = None
        extv = spent == ('ext',)
        bigv = spent == ('big',)
        attrv = spent == ('attrs',)
        if isinstance(spent, tuple) and spent and spent[0] == 'ids':
            idmap = IDMAPS[spent[1]]
            spent = None
        k = len(par)
        base_names = ['t%d' % j for j in range(k)]
        base_names[pos] = 'x'
        wb, tb, depb, resb, clock = check(par, links, base_names, ms, sec, clock_off, acc, None, spent, idmap)
        adv_id = (idmap[pos] if idmap is not None else sorted(t.id for t in tb)[pos])
        for nm in (NAMES if (spent is None and idmap is None) else NAMES[:3]):  # ('ext',) counts as a spent-variant: three names
            names = list(base_names)
            names[pos] = nm
            w, tasks, deps, res, clock = check(par, links, names, ms, sec, clock_off, acc, None, spent, idmap)
            for kind in ('gantt', 'network', 'dhtmlx'):
                acc.count('evaluations')
                case = {'parents': list(par), 'links': [list(x) for x in links], 'names': names, 'milestones': list(ms),
                        'sections': {str(a): b for a, b in sec.items()}, 'clock_offset_h': clock_off.total_seconds() / 3600, 'renderer': kind,
                        'spent': list(spent) if spent else None, 'external_predecessor_of_last_task': extv}
                cls = name_class(nm) if (spent is None and idmap is None) else 'external-dependency' if extv else 'larger-hierarchy' if bigv else 'entry-key-named-attributes' if attrv else 'spent-work' if idmap is None else 'long-ids'

                def V(clause, msg):
                    acc.violation('C19', f'{clause}/{cls}', f'name {nm!r}: {msg}', case)
                r = res[kind]
                if r[0] == 'raised':
                    V(kind + '/render-raised', r[1])
                    continue
                _, an, page, iframe = r
                verify(kind, tasks, deps, an, adv_id, V, clock)
                ob, oa = others(kind, resb[kind][1], adv_id), others(kind, an, adv_id)
                if kind == 'network':
                    pass  # edges carry ids only; verify() already compares them with the dependencies
                elif ob != oa:
                    V(kind + '/other-entries-altered', f'entries of the other tasks differ from the rendering with name "x"')
                if page not in srcdocs(iframe):
                    V(kind + '/notebook-not-escaped-document', '_repr_html_() is not an iframe whose srcdoc attribute, read as an HTML '
                      'consumer reads it (entities decoded), is the to_html() document')
                if nm not in ('a', 'a b'):
                    acc.count('nontrivial')
        # a renderer object is reused after the WBS changed: its output is the one a fresh renderer gives
        if spent is None and idmap is None and pos == 0 and clock_off == timedelta(hours=2):
            from pjplan import MermaidGantt, MermaidNetwork, DhtmlxGantt
            wr, tr, _, _, clk = check(par, links, base_names, ms, sec, clock_off, acc, None)
            seams.CLOCK.set_const(clk)
            rs = [cls(wr) for cls in (MermaidGantt, MermaidNetwork, DhtmlxGantt)]
            for r in rs:
                r.to_html()
                r._repr_html_()
            tr[-1].name = 'renamed later'
            tr[0].gantt_section = 'LateSection'
            tr[0].end = tr[0].end + timedelta(days=1)
            for r, cls in zip(rs, (MermaidGantt, MermaidNetwork, DhtmlxGantt)):
                acc.count('evaluations')
                acc.count('rerender_after_change')
                page2 = r.to_html()
                if page2 not in srcdocs(r._repr_html_()):
                    acc.violation('C19', f'{cls.__name__}/notebook-stale-after-wbs-change/other', '_repr_html_() of a renderer shown before the '
                                  'WBS was edited is not the escaped current document', {'parents': list(par), 'links': [list(x) for x in links]})
                if page2 != cls(wr).to_html():
                    acc.violation('C19', f'{cls.__name__}/stale-after-wbs-change/other', 'to_html() of a renderer created before the WBS was '
                                  'edited differs from a fresh renderer', {'parents': list(par), 'links': [list(x) for x in links]})
        if len(acc.samples) < 1:
            acc.sample({'parents': list(par), 'links': [list(x) for x in links], 'names_tried': NAMES})
    return acc


def name_class(nm):
    if '</script' in nm:
        return 'close-script'
    if '</div' in nm:
        return 'close-div'
    if '<' in nm or '&' in nm:
        return 'html-markup'
    if '}}' in nm or '{{' in nm:
        return 'double-brace'
    if ':' in nm:
        return 'colon'
    if '"' in nm or "'" in nm:
        return 'quote'
    return 'other'


def run(rep):
    global _TIER
    _TIER = rep.tier
    seams.clock_canary()
    nw = runtime.n_workers()
    k = nw * 2
    runtime.run_chunks(_work, [(i, k) for i in range(k)], rep.acc)
    c = rep.acc.counters
    rep.coverage.update({
        'evaluations': c['evaluations'], 'distinct_nontrivial': c['nontrivial'],
        'rule': 'forward-scheduled WBSs for all hierarchies/link sets with <=3 tasks x milestone placement x 3 section assignments x 3 clock '
                'positions x the adversarial name (from %d names) on each task in turn x 3 renderers; outputs parsed by consumer-side parsers '
                '(html.parser; Mermaid gantt line grammar; flowchart node tokenisation; JSON). non-trivial = renderings with a name containing '
                'markup/braces/quotes/colon/non-ASCII' % len(NAMES), 'exhaustive': True,
    })
    rep.assumptions += ['names are non-None single-line strings', 'the rendering of the adversarial name itself is not compared, only entry counts, ids, dates, flags, sections and the other entries']


def replay(data):
    for ex in data.get('examples', []):
        print(ex['message'], ex['case'])
    return 1
