from . import _engineb
LEVEL = _engineb.LEVEL


def run(rep):
    _engineb.run(rep, 'C08')


def replay(data):
    from . import _replay_b
    return _replay_b.replay(data, 'C08')
