"""C17: calendars and the availability search, against a reference evaluator written from the statement.
Engine C: complete enumeration of a finite expression x date product."""
import itertools
from datetime import datetime, timedelta

from .. import runtime

LEVEL = 'exploration'
DAY = timedelta(days=1)
BASE = datetime(2024, 1, 1)  # Monday
LO = BASE + 3 * DAY
HI = BASE + 10 * DAY
NOON = timedelta(hours=12)

# ---- leaves: (kind, params) -------------------------------------------------------------------
LEAVES = [
    ('wl', (0, 1, 2, 3, 4), 8, None, None),
    ('wl', (0,), 0.5, None, None),
    ('wl', (5, 6), 8, LO, None),
    ('wl', (0, 1, 2, 3, 4), 8, LO, HI),
    ('wl', (0, 1, 2, 3, 4), 0.5, LO + NOON, HI + NOON),
    ('wl', (), 8, None, None),
    ('wl', (0, 1, 2, 3, 4), 0, None, None),
    ('wl', (0, 1, 2, 3, 4, 5, 6), 8, None, HI),
    ('wd', ((0, 4), (2, 2.5), (4, 8)), None, None),
    ('wd', (), None, None),
    ('dc', ()),
    ('dc', ((LO, 8), (LO + DAY, 0), (LO + 2 * DAY + timedelta(hours=15, minutes=30), 0.5))),
    ('fx', 0, None, None),
    ('fx', 2, None, None),
    ('fx', 2, LO + NOON, HI + NOON),
]
# the neutral elements 1 and 1.0 included: an expression with them is still an expression (a missing operand is skipped, the number counts)
SCALARS = [0, 2, 0.5, 1, 1.0, 1e-07]  # 1e-07: a capacity that is tiny but positive is capacity
OPS = ['+', '-', '*', '/', '|']


def all_weekly_leaves():
    out = []
    bounds = [(None, None), (LO, None), (None, HI), (LO, HI), (LO + NOON, HI + NOON), (LO + NOON, None), (LO, LO)]
    for days in ((), (0,), (0, 1, 2, 3, 4), (5, 6)):
        for u in (0, 0.5, 8):
            for s, e in bounds:
                out.append(('wl', days, u, s, e))
    for d in ((), ((0, 4), (2, 2.5), (4, 8)), ((6, 0.5),), ((0, 0),)):
        for s, e in bounds:
            out.append(('wd', d, s, e))
    for u in (0, 2, 0.5):
        for s, e in bounds:
            out.append(('fx', u, s, e))
    return out


def build(expr):
    from pjplan import WeeklyCalendar, DirectCalendar, FixedCalendar
    k = expr[0]
    if k == 'wl':
        return WeeklyCalendar(start=expr[3], end=expr[4], days=list(expr[1]), units_per_day=expr[2])
    if k == 'wd':
        return WeeklyCalendar(start=expr[2], end=expr[3], units_per_day=dict(expr[1]))
    if k == 'dc':
        return DirectCalendar(dict(expr[1]))
    if k == 'fx':
        return FixedCalendar(expr[1], expr[2], expr[3])
    if k == 'num':
        return expr[1]
    if k == 'op':
        l, r = build(expr[2]), build(expr[3])
        o = expr[1]
        if o == '+':
            return l + r
        if o == '-':
            return l - r
        if o == '*':
            return l * r
        if o == '/':
            return l / r
        if o == '|':
            return l | r
    raise runtime.HarnessError('bad expr')


def ref(expr, date):
    """Reference evaluator: Optional value. Returns the string 'UNDEF' where the statement defines nothing
    (division by a calendar that is 0 on the date)."""
    k = expr[0]
    if k == 'wl' or k == 'wd':
        s, e = (expr[3], expr[4]) if k == 'wl' else (expr[2], expr[3])
        if s is not None and date < s:
            return None
        if e is not None and date > e:
            return None
        wd = date.weekday()
        if k == 'wl':
            return expr[2] if wd in expr[1] else 0
        return dict(expr[1]).get(wd, 0)
    if k == 'dc':
        d0 = datetime(date.year, date.month, date.day)
        for d, u in expr[1]:
            if datetime(d.year, d.month, d.day) == d0:
                return u
        return None
    if k == 'fx':
        if expr[2] is not None and date < expr[2]:
            return 0
        if expr[3] is not None and date > expr[3]:
            return 0
        return expr[1]
    if k == 'num':
        return expr[1]
    if k == 'op':
        o = expr[1]
        a, b = ref(expr[2], date), ref(expr[3], date)
        if a == 'UNDEF' or b == 'UNDEF':
            return 'UNDEF'
        if o == '|':
            for v in (a, b):
                if v is not None and v > 0:
                    return v
            return None
        vals = [v for v in (a, b) if v is not None]
        if not vals:
            return None
        if len(vals) == 1:
            r = vals[0]
        elif o == '+':
            r = a + b
        elif o == '-':
            r = a - b
        elif o == '*':
            r = a * b
        else:
            if b == 0:
                return 'UNDEF'
            r = a / b
        if o == '-' and r < 0:
            return None
        return r
    raise runtime.HarnessError('bad expr')


def dates():
    out = []
    for k in range(-4, 12):
        d = BASE + 3 * DAY + k * DAY
        for t in (timedelta(0), NOON, timedelta(hours=23, minutes=59, seconds=59), timedelta(microseconds=250)):
            out.append(d + t)
    return out


def exprs(depth):
    leaves = list(LEAVES)
    rights = leaves + [('num', s) for s in SCALARS]
    out = list(leaves)
    d1 = []
    for l in leaves:
        for o in OPS:
            for r in rights:
                if o == '/' and r[0] == 'num' and r[1] == 0:
                    continue
                d1.append(('op', o, l, r))
    out += d1
    if depth >= 2:
        for e in d1:
            for o in OPS:
                for r in rights:
                    if o == '/' and r[0] == 'num' and r[1] == 0:
                        continue
                    yield ('op', o, e, r)
    for e in out:
        yield e


def show(e):
    k = e[0]
    if k == 'op':
        return f'({show(e[2])} {e[1]} {show(e[3])})'
    if k == 'num':
        return repr(e[1])

    def d(x):
        return x.strftime('%m-%dT%H') if x is not None else '-'
    if k == 'wl':
        return f'Weekly(days={list(e[1])},u={e[2]},[{d(e[3])},{d(e[4])}])'
    if k == 'wd':
        return f'Weekly({dict(e[1])},[{d(e[2])},{d(e[3])}])'
    if k == 'dc':
        return 'Direct({' + ','.join(f'{d(a)}:{b}' for a, b in e[1]) + '})'
    return f'Fixed({e[1]},[{d(e[2])},{d(e[3])}])'


def veq(a, b):
    if a is None or b is None:
        return a is None and b is None
    return abs(a - b) <= 1e-12 * max(1.0, abs(a), abs(b))


_DEPTH = 1
_DATES = None


def _work(chunk):
    i, n, mode = chunk
    from pjplan import Resource
    acc = runtime.Acc()
    if mode == 'sharing':
        sharing_checks(acc, 'thorough' if _DEPTH >= 2 else 'quick', i, n)
        return acc
    ds = dates()
    if mode == 'leaves':
        gen = all_weekly_leaves()
    else:
        gen = exprs(_DEPTH)
    for e in itertools.islice(gen, i, None, n):
        try:
            cal = build(e)
        except Exception as ex:  # noqa
            acc.violation('C17', f'expression/constructor-raised/{type(ex).__name__}', f'{show(e)} could not be built: {ex}', {'expr': show(e)})
            continue
        res = Resource('r', cal)
        nontriv = False
        acc.count('expressions')
        for d in ds:
            exp = ref(e, d)
            if exp == 'UNDEF':
                acc.count('skipped_division_by_zero_valued_calendar')
                continue
            try:
                got = cal.get_available_units(d)
            except Exception as ex:  # noqa
                acc.violation('C17', f'lookup/raised-{type(ex).__name__}/{e[1] if e[0] == "op" else e[0]}', f'{show(e)} on {d}: {ex}', {'expr': show(e), 'date': str(d)})
                continue
            acc.count('lookups')
            if exp is None or exp == 0:
                nontriv = True
            if not veq(got, exp):
                kind = e[1] if e[0] == 'op' else e[0]
                cls = 'none-vs-zero' if (got in (None, 0) and exp in (None, 0)) else 'value'
                acc.violation('C17', f'lookup/{kind}/{cls}', f'{show(e)} on {d:%a %Y-%m-%d %H:%M:%S}: got {got}, reference {exp}',
                              {'expr': show(e), 'date': str(d)})
            rg = res.get_available_units(d)
            rexp = 0 if exp is None else exp
            if rg is None or not veq(rg, rexp):
                acc.violation('C17', 'resource/none-not-mapped-to-zero' if rg is None else 'resource/value',
                              f'Resource over {show(e)} on {d}: got {rg}, expected {rexp}', {'expr': show(e), 'date': str(d)})
        if nontriv:
            acc.count('nontrivial')
        # availability search (depth <= 1 expressions and leaves only: the search does not depend on nesting)
        if mode == 'leaves' or e[0] != 'op' or e[2][0] != 'op':
            search(e, cal, res, acc)
        if len(acc.samples) < 2 and e[0] == 'op':
            acc.sample({'expr': show(e), 'values': [[str(d), ref(e, d)] for d in ds[:6]]})
    return acc


def search(e, cal, res, acc):
    starts = [BASE + 3 * DAY + k * DAY + t for k in range(-2, 10, 1)
              for t in (timedelta(0), timedelta(hours=9, minutes=30), timedelta(microseconds=250))]
    for s in starts:
        for direction in (1, -1):
            for md in (0, 1, 2, 3, 7, 30):
                exp = None
                undefined = False
                for k in range(md):
                    probe = s + k * DAY * direction - (DAY if direction < 0 else timedelta(0))
                    v = ref(e, probe)
                    if v == 'UNDEF':
                        undefined = True
                        break
                    if v is not None and v > 0:
                        exp = s + k * DAY * direction
                        break
                if undefined:
                    continue
                acc.count('searches')
                try:
                    got = res.get_nearest_availability_date(s, direction, md)
                    outcome = ('date', got)
                except RuntimeError as ex:
                    outcome = ('RuntimeError',) if not isinstance(ex, RecursionError) else ('RecursionError',)
                except Exception as ex:  # noqa
                    outcome = (type(ex).__name__,)
                want = ('date', exp) if exp is not None else ('RuntimeError',)
                if exp is None:
                    acc.count('premise:search-fails-within-horizon')
                if outcome != want:
                    acc.violation('C17', f'search/{"forward" if direction > 0 else "backward"}/{"missed" if exp is not None else "should-raise"}',
                                  f'{show(e)}: search from {s} dir {direction} max_days {md}: got {outcome}, reference {want}',
                                  {'expr': show(e), 'start': str(s), 'direction': direction, 'max_days': md})


def sharing_checks(acc, tier, part=0, parts=1):
    """Operands are shared objects in real use: building further expressions from a calendar must not change what
    that calendar (or any expression built earlier from it) answers. For every depth-1 expression L built once,
    two further expressions are built from the same L object, then all three are evaluated."""
    from pjplan import Resource
    ds = dates()[::3] if tier == 'quick' else dates()
    leaves = list(LEAVES)
    rights = leaves + [('num', s) for s in SCALARS]
    base = [l for l in leaves] + [('op', o, l, r) for l in leaves[:6] for o in OPS for r in (rights if tier == 'thorough' else rights[::3])
                                  if not (o == '/' and r[0] == 'num' and r[1] == 0)]
    ext = [(o, r) for o in OPS for r in (rights[::4] + [('num', 2)])]
    for L in base[part::parts]:
        try:
            lobj = build(L)
        except Exception:  # noqa
            continue
        robjs = {}
        for (o1, r1), (o2, r2) in itertools.product(ext, repeat=2) if tier == 'thorough' else zip(ext, ext[1:] + ext[:1]):
            objs = [(L, lobj)]
            try:
                for o, r in ((o1, r1), (o2, r2)):
                    rob = robjs.get(r)
                    if rob is None:
                        rob = robjs[r] = build(r)
                    e = ('op', o, L, r)
                    if o == '+':
                        ob = lobj + rob
                    elif o == '-':
                        ob = lobj - rob
                    elif o == '*':
                        ob = lobj * rob
                    elif o == '/':
                        ob = lobj / rob
                    else:
                        ob = lobj | rob
                    objs.append((e, ob))
                    if r[0] != 'num':
                        objs.append((r, rob))
            except RuntimeError:
                continue
            acc.count('sharing_cases')
            acc.count('nontrivial')
            for e, ob in objs:
                for d in ds:
                    exp = ref(e, d)
                    if exp == 'UNDEF':
                        continue
                    try:
                        got = ob.get_available_units(d)
                    except Exception as ex:  # noqa
                        got = type(ex).__name__
                    acc.count('lookups')
                    if isinstance(got, str) or not veq(got, exp):
                        acc.violation('C17', 'sharing/operand-or-earlier-expression-changed/' + (e[1] if e[0] == 'op' else e[0]),
                                      f'after building ({show(L)} {o1} {show(r1)}) and ({show(L)} {o2} {show(r2)}) from the same objects, '
                                      f'{show(e)} on {d:%a %m-%d %H:%M} answers {got}, reference {exp}',
                                      {'L': show(L), 'ops': [o1, show(r1), o2, show(r2)], 'expr': show(e), 'date': str(d)})
                        break


def mutation_checks(acc):
    """DirectCalendar.set_units after the calendar was queried, composed and wrapped in a Resource: every later lookup and
    search answers for the new content (nothing cached)."""
    from pjplan import DirectCalendar, WeeklyCalendar, Resource
    ds = dates()
    base_units = ((LO, 8), (LO + DAY, 0))
    # one of the new dates is given with a time of day, as the constructor accepts it
    new_units = ((LO + DAY, 4), (LO + 3 * DAY + timedelta(hours=15, minutes=30), 2), (LO + 20 * DAY, 8))
    for other in [None] + [l for l in LEAVES if l[0] != 'dc'][:6]:
        for o in OPS:
            dc = DirectCalendar(dict(base_units))
            cal = dc
            e0 = ('dc', base_units)
            merged = dict(base_units)
            merged.update(dict(new_units))
            e1 = ('dc', tuple(merged.items()))
            if other is not None:
                ob = build(other)
                cal = {'+': dc + ob, '-': dc - ob, '*': dc * ob, '/': dc / ob, '|': dc | ob}[o]
                e0, e1 = ('op', o, e0, other), ('op', o, e1, other)
            elif o != '+':
                continue
            res = Resource('r', cal)
            # query everything once, then change the dated calendar
            for d in ds:
                if ref(e0, d) != 'UNDEF':
                    cal.get_available_units(d)
                    res.get_available_units(d)
            try:
                res.get_nearest_availability_date(LO, 1, 7)
            except (RuntimeError, ZeroDivisionError):
                pass
            dc.set_units(dict(new_units))
            acc.count('mutation_cases')
            acc.count('nontrivial')
            for d in ds:
                exp = ref(e1, d)
                if exp == 'UNDEF':
                    continue
                got = cal.get_available_units(d)
                acc.count('lookups')
                if not veq(got, exp):
                    acc.violation('C17', f'mutation/stale-after-set_units/{o if other is not None else "leaf"}',
                                  f'after set_units: {show(e1)} on {d}: got {got}, reference {exp}', {'expr': show(e1), 'date': str(d)})
                    break
            search(e1, cal, res, acc)
    # a definition that is rejected changes nothing: after a set_units call refused for a negative entry (placed first, in the
    # middle or last, after entries that are fine) the calendar, an expression over it and a resource still answer their configured values
    for pos in (0, 1, 2):
        for other in (None, ('num', 2)):
            dc = DirectCalendar(dict(base_units))
            e0 = ('dc', base_units)
            cal = dc
            if other is not None:
                cal = dc + 2
                e0 = ('op', '+', e0, other)
            res = Resource('r', cal)
            good = [(LO + DAY, 4), (LO + 2 * DAY, 6)]
            items = good[:pos] + [(LO + 4 * DAY, -1)] + good[pos:]
            acc.count('mutation_cases')
            acc.count('nontrivial')
            try:
                dc.set_units(dict(items))
                out = 'accepted'
            except RuntimeError as ex:
                out = 'RecursionError' if isinstance(ex, RecursionError) else 'RuntimeError'
            except Exception as ex:  # noqa
                out = type(ex).__name__
            if out != 'RuntimeError':
                acc.violation('C17', f'constructor/set_units-negative-units/{out}', f'set_units with a negative entry at position {pos}: {out}, '
                              'the statement says rejected with RuntimeError', {'items': [(str(a), b) for a, b in items]})
                continue
            for d in ds:
                exp = ref(e0, d)
                if exp == 'UNDEF':
                    continue
                got = cal.get_available_units(d)
                acc.count('lookups')
                if not veq(got, exp):
                    acc.violation('C17', f'mutation/changed-by-rejected-set_units/{"leaf" if other is None else "+"}',
                                  f'after a set_units call that was rejected (negative entry at position {pos}): {show(e0)} on {d}: got {got}, '
                                  f'configured value {exp}', {'expr': show(e0), 'date': str(d), 'items': [(str(a), b) for a, b in items]})
                    break
            search(e0, cal, res, acc)


def same_operand_checks(acc):
    """The SAME calendar object on both sides of one operator (`week + week` to double a capacity, `x - x`, `x * x`, `x / x`,
    `x | x`) and twice inside a nested expression: the operator is applied to the operands' values, however the operands came about."""
    ds = dates()
    for L in LEAVES:
        for o in OPS:
            x = build(L)
            try:
                cal = {'+': lambda: x + x, '-': lambda: x - x, '*': lambda: x * x, '/': lambda: x / x, '|': lambda: x | x}[o]()
                nested = {'+': lambda: (x + 2) + x, '-': lambda: (x + 2) - x, '*': lambda: (x + 2) * x, '/': lambda: (x + 2) / x,
                          '|': lambda: (x - 100) | x}[o]()
            except RuntimeError:
                continue
            for e, c in ((('op', o, L, L), cal),
                         (('op', o, ('op', '+' if o != '|' else '-', L, ('num', 2 if o != '|' else 100)), L), nested)):
                acc.count('same_operand_cases')
                acc.count('nontrivial')
                for d in ds:
                    try:
                        exp = ref(e, d)
                    except ZeroDivisionError:
                        continue
                    if exp == 'UNDEF':
                        continue
                    try:
                        got = c.get_available_units(d)
                    except ZeroDivisionError:
                        acc.count('skipped_division_by_zero_valued_calendar')
                        continue
                    acc.count('lookups')
                    if not veq(got, exp):
                        acc.violation('C17', f'lookup/{o}/same-object-twice', f'{show(e)} built from ONE calendar object on {d}: got {got}, '
                                      f'reference {exp}', {'expr': show(e), 'date': str(d)})
                        break


def constructor_checks(acc):
    from pjplan import WeeklyCalendar, DirectCalendar, FixedCalendar
    cases = []
    for wd in (-1, 7):
        cases.append((f'weekly-list-weekday-{wd}', lambda wd=wd: WeeklyCalendar(days=[0, wd], units_per_day=8)))
        cases.append((f'weekly-dict-weekday-{wd}', lambda wd=wd: WeeklyCalendar(units_per_day={0: 8, wd: 8})))
    cases.append(('weekly-list-negative-units', lambda: WeeklyCalendar(days=[0], units_per_day=-1)))
    cases.append(('weekly-list-negative-float-units', lambda: WeeklyCalendar(days=[0], units_per_day=-0.5)))
    cases.append(('weekly-dict-negative-units', lambda: WeeklyCalendar(units_per_day={0: 8, 1: -2})))
    cases.append(('direct-negative-units', lambda: DirectCalendar({LO: 8, LO + DAY: -1})))
    cases.append(('fixed-negative-units', lambda: FixedCalendar(-1)))
    cases.append(('weekly-start-after-end', lambda: WeeklyCalendar(start=HI, end=LO, days=[0], units_per_day=8)))
    cases.append(('weekly-dict-start-after-end', lambda: WeeklyCalendar(start=HI, end=LO, units_per_day={0: 8})))
    cases.append(('fixed-start-after-end', lambda: FixedCalendar(2, HI, LO)))
    base = WeeklyCalendar(days=[0, 1], units_per_day=8)
    cases.append(('division-by-int-zero', lambda: base / 0))
    cases.append(('division-by-float-zero', lambda: base / 0.0))
    cases.append(('division-of-composed-by-zero', lambda: (base + 1) / 0))
    for name, fn in cases:
        acc.count('constructor_cases')
        acc.count('nontrivial')
        try:
            fn()
            out = 'accepted'
        except RuntimeError as ex:
            out = 'RuntimeError' if not isinstance(ex, RecursionError) else 'RecursionError'
        except Exception as ex:  # noqa
            out = type(ex).__name__
        if out != 'RuntimeError':
            acc.violation('C17', f'constructor/{name}/{out}', f'{name}: {out}, the statement says rejected with RuntimeError', {'case': name})
    # legal boundary definitions must still build (guards against an over-eager rejection being read as conformance)
    ok = [('weekday-0-and-6', lambda: WeeklyCalendar(days=[0, 6], units_per_day=8)),
          ('start-equals-end', lambda: WeeklyCalendar(start=LO, end=LO, days=[0], units_per_day=8)),
          ('zero-units', lambda: FixedCalendar(0)), ('division-by-two', lambda: base / 2)]
    for name, fn in ok:
        try:
            fn()
        except Exception as ex:  # noqa
            acc.count('legal_definition_rejected:' + name)


def run(rep):
    global _DEPTH
    _DEPTH = 1 if rep.tier == 'quick' else 2
    nw = runtime.n_workers()
    k = nw * 3
    chunks = [(i, k, 'exprs') for i in range(k)] + [(i, nw, 'leaves') for i in range(nw)] + [(i, k, 'sharing') for i in range(k)]
    runtime.run_chunks(_work, chunks, rep.acc)
    constructor_checks(rep.acc)
    mutation_checks(rep.acc)
    same_operand_checks(rep.acc)
    c = rep.acc.counters
    rep.coverage.update({
        'evaluations': c['lookups'] + c['searches'] + c['constructor_cases'],
        'distinct_nontrivial': c['nontrivial'],
        'rule': f'all calendar expressions of nesting depth <= {_DEPTH} over {len(LEAVES)} leaves, 3 scalars and 5 operators, plus every weekly/fixed '
                f'leaf variant (day sets x units x 7 validity windows), each evaluated on 64 instants (16 days x 4 times of day incl. 250 microseconds past midnight) against the '
                f'reference evaluator; availability search from 36 starts x 2 directions x 6 horizons; 13 illegal definitions. non-trivial = '
                f'distinct expressions with at least one none/zero value in the window, plus the constructor cases',
        'expressions': c['expressions'], 'lookups': c['lookups'], 'searches': c['searches'],
        'skipped_division_by_zero_valued_calendar': c['skipped_division_by_zero_valued_calendar'],
        'shared_operand_cases': c['sharing_cases'],
        'searches_that_must_raise': c['premise:search-fails-within-horizon'], 'exhaustive': True,
    })
    rep.assumptions += ['quotients whose divisor evaluates to 0 on the queried date are outside the statement and skipped',
                        'float results compared with relative tolerance 1e-12 (the reference performs the same operations in the same order)']


def replay(data):
    print('C17 replay: the message of each example names the expression and date; re-run the check to reproduce')
    for ex in data.get('examples', []):
        print(ex['message'])
    return 1
