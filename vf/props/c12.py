"""C12: WBS.critical_path() against a longest-path reference in exact rationals (Engine C)."""
import itertools
from fractions import Fraction

from .. import runtime
from ..sched import layers as LY

LEVEL = 'exploration'

from datetime import datetime
# a leaf's flags and dates do not change what it lasts: a milestone with open work still lasts estimate - spent
MS = {'milestone': True}
DATED = {'start': datetime(2024, 1, 1), 'end': datetime(2024, 1, 2), 'min_start': datetime(2024, 3, 1), 'resource': 'r'}
DYADIC = [(None, None), (0, None), (8, None), (8, 3), (3, 8), (16, None), (8, 3, MS), (16, None, MS), (8, None, DATED)]
DECIMAL = [(0.1, None), (0.2, None), (0.3, None)]
# ties in decimal arithmetic at a magnitude where one ulp exceeds 1e-9
BIGDEC = [(10000000.1, None), (10000000.2, None), (20000000.3, None)]


def F(x):
    return Fraction(str(x)) if x is not None else Fraction(0)


def reference(par, links, durs):
    """durs: dict leaf index -> Fraction. Returns set of critical leaf indices."""
    n = len(par)
    leaves = [i for i in range(n) if LY.is_leaf(par, i)]
    preds = {l: set() for l in leaves}
    for p, s in links:
        for ls in LY.leaves_of(par, s):
            for lp in LY.leaves_of(par, p):
                preds[ls].add(lp)
    succs = {l: set() for l in leaves}
    for l, ps in preds.items():
        for p in ps:
            succs[p].add(l)
    ef = {}

    def EF(l):
        if l not in ef:
            ef[l] = durs[l] + max([EF(p) for p in preds[l]] + [Fraction(0)])
        return ef[l]

    tail = {}

    def TAIL(l):
        if l not in tail:
            tail[l] = max([durs[s] + TAIL(s) for s in succs[l]] + [Fraction(0)])
        return tail[l]

    if not leaves:
        return set()
    length = max(EF(l) for l in leaves)
    return {l for l in leaves if EF(l) + TAIL(l) == length}


def build(par, links, attrs, ids=None):
    from pjplan import Task, WBS
    w = WBS()
    objs = [Task(i + 1 if ids is None else ids[i], name='n%d' % (i + 1), **attrs.get(i, {})) for i in range(len(par))]
    for i, t in enumerate(objs):
        if par[i] is None:
            w.roots.append(t)
        else:
            objs[par[i]].children.append(t)
    for p, s in links:
        objs[s].predecessors.append(objs[p])
    return w, objs


def observe(w, objs):
    return tuple((t.id, id(t.parent) if t.parent else None, tuple(id(c) for c in t.children), tuple(id(p) for p in t.predecessors),
                  tuple(id(p) for p in t.successors), tuple(sorted((k, repr(v)) for k, v in t.to_dict().items()))) for t in objs) + \
        (tuple(id(t) for t in w.tasks),)


_TIER = 'quick'


def menus(tier, nleaves):
    if nleaves == 3:
        return [[(None, None), (8, None), (8, 3), (16, None), (16, None, MS), (8, 3, DATED)] if tier == 'quick' else DYADIC, DECIMAL, BIGDEC]
    if nleaves >= 4:
        return [[(0, None), (8, None), (8, 3), (16, None, MS)], DECIMAL] if tier == 'thorough' else [[(8, None), (4, None), (12, None, MS)]]
    return [DYADIC, DECIMAL]


def _work(chunk):
    i, n = chunk
    acc = runtime.Acc()
    if i < 0:
        history_checks(acc, -i - 1, n)
        return acc
    nmax = 4
    structs = [(par, links) for par, links in LY.structures(nmax, 2, 3) if not LY.leaf_cycle(par, links)]
    # five tasks: every hierarchy x every single link (thorough: every pair of links)
    for par in LY.forests(5):
        for links in LY.link_sets(par, 1 if _TIER == 'quick' else 2):
            if not LY.direct_cycle(5, links) and not LY.leaf_cycle(par, links):
                structs.append((par, links))
    flat4 = (None, None, None, None)
    big4 = [(flat4, t) for t in itertools.combinations(LY.link_candidates(flat4), 3)
            if not LY.direct_cycle(4, t) and not any((b, a) in t for a, b in t)]
    for par, links in structs[i::n] + [(p_, l_ + ('BIG',)) for p_, l_ in big4[i::n]]:
        big = bool(links) and links[-1] == 'BIG'
        if big:
            links = links[:-1]
        lv = [k for k in range(len(par)) if LY.is_leaf(par, k)]
        summary_link = any((not LY.is_leaf(par, p)) or (not LY.is_leaf(par, s)) for p, s in links)
        for menu in ([BIGDEC + [(5, None)]] if big else menus(_TIER, len(lv))):
            decimal = menu is DECIMAL or menu is BIGDEC or big
            for combo in itertools.product(menu, repeat=len(lv)):
                attrs = {}
                durs = {}
                for k, ent in zip(lv, combo):
                    e, s = ent[0], ent[1]
                    a = dict(ent[2]) if len(ent) > 2 else {}
                    if e is not None:
                        a['estimate'] = e
                    if s is not None:
                        a['spent'] = s
                    attrs[k] = a
                    durs[k] = max(F(e) - F(s), Fraction(0))
                for k in range(len(par)):
                    if k not in lv:
                        attrs[k] = {'estimate': 40, 'spent': 1}  # values on a summary must not matter
                exp = {k + 1 for k in reference(par, links, durs)}
                w, objs = build(par, links, attrs)
                before = observe(w, objs)
                acc.count('evaluations')
                case = {'parents': list(par), 'links': [list(x) for x in links], 'attrs': {str(k + 1): v for k, v in attrs.items()}}
                cls = ('summary-link' if summary_link else 'leaf-links') + ('/decimal' if decimal else '')
                try:
                    got = [t.id for t in w.critical_path()]
                except Exception as ex:  # noqa
                    acc.violation('C12', f'critical_path/exception-{type(ex).__name__}/{cls}',
                                  f'critical_path() raised {type(ex).__name__}: {ex}', case)
                    continue
                if observe(w, objs) != before:
                    acc.violation('C12', f'critical_path/modifies-wbs/{cls}', 'critical_path() changed the WBS', case)
                if len(set(got)) != len(got):
                    acc.violation('C12', f'critical_path/repeated-task/{cls}', f'result {got} repeats a task', case)
                if set(got) != exp:
                    sub = 'empty' if not got else 'missing' if set(got) < exp else 'extra' if set(got) > exp else 'different'
                    acc.violation('C12', f'critical_path/{sub}/{cls}', f'critical_path() = {sorted(got)}, zero-float leaves are {sorted(exp)}', case)
                if len(exp) < len(lv) or summary_link:
                    acc.count('nontrivial')
                if summary_link:
                    acc.count('premise:dependency-on-summary')
                if decimal and len(exp) > 1:
                    acc.count('premise:decimal-parallel-critical')
                if len(acc.samples) < 2 and links and len(exp) < len(lv):
                    acc.sample(dict(case, critical=sorted(exp)))
    return acc


RESERVED_IDS = [('end', 'start', 'finish'), ('start', 'x', 'end'), (0, '0', -1), ('', 'None', 'root'), ((1, 2), 1, 2)]


def reserved_id_checks(acc):
    """Ids that an implementation might use for its own bookkeeping (virtual start / finish nodes, a root marker), falsy ids, ids
    that print alike, a tuple id: every structure of <= 3 tasks, a few durations."""
    for par, links in LY.structures(3, 2, 3):
        if LY.leaf_cycle(par, links):
            continue
        n = len(par)
        lv = [k for k in range(n) if LY.is_leaf(par, k)]
        for ids in RESERVED_IDS:
            for ests in ((8,) * len(lv), (3, 8, 5)[:len(lv)], (0,) * len(lv)):
                attrs = {k: {'estimate': ests[j]} for j, k in enumerate(lv)}
                durs = {k: Fraction(ests[j]) for j, k in enumerate(lv)}
                exp = [ids[k] for k in sorted(reference(par, links, durs))]
                w, objs = build(par, links, attrs, ids=ids[:n])
                acc.count('evaluations')
                acc.count('reserved_id_cases')
                case = {'parents': list(par), 'links': [list(x) for x in links], 'ids': [repr(x) for x in ids[:n]], 'estimates': list(ests)}
                try:
                    got = [t.id for t in w.critical_path()]
                except Exception as ex:  # noqa
                    acc.violation('C12', f'critical_path/exception-{type(ex).__name__}/unusual-ids', f'critical_path() raised {type(ex).__name__}: {ex}', case)
                    continue
                if sorted(map(repr, got)) != sorted(map(repr, exp)):
                    acc.violation('C12', 'critical_path/different/unusual-ids', f'critical_path() = {got}, zero-float leaves are {exp}', case)


def abstract_of(w):
    """(ids, parents, links, durations) read back from the live WBS through public getters."""
    ts = list(w.tasks)
    idx = {id(t): k for k, t in enumerate(ts)}
    par = tuple(idx[id(t.parent)] if t.parent is not None else None for t in ts)
    links = [(idx[id(p)], k) for k, t in enumerate(ts) for p in t.predecessors if id(p) in idx]
    durs = {k: max(F(t.estimate) - F(t.spent), Fraction(0)) for k, t in enumerate(ts) if not len(t.children)}
    external = any(id(p) not in idx for t in ts for p in t.predecessors)
    return [t.id for t in ts], par, links, durs, external


def history_checks(acc, part, parts):
    """critical_path() is called, the same WBS is edited through the public API, and it is called again: the second
    answer must be the one for the edited WBS (nothing about the first call may be remembered)."""
    from pjplan import Task
    structs = [(par, links) for par, links in LY.structures(3, 2, 2) if not LY.leaf_cycle(par, links)]
    # four tasks with a summary and <= 1 link: only moves of SUMMARY tasks (the leaves below them change ancestors without being touched)
    structs4 = [(par, links) for par in LY.forests(4) if any(not LY.is_leaf(par, k) for k in range(4))
                for links in LY.link_sets(par, 1) if not LY.leaf_cycle(par, links)]
    for par, links in structs[part::parts] + structs4[part::parts]:
        n = len(par)
        lv = [k for k in range(n) if LY.is_leaf(par, k)]
        for ests in ((8,) * len(lv), (3, 8, 5, 2)[:len(lv)]):
            attrs = {k: {'estimate': ests[j]} for j, k in enumerate(lv)}
            edits = []
            for k in range(n):
                if k not in lv:
                    for tgt in list(range(n)) + [None]:
                        if tgt != k and tgt != par[k]:
                            edits.append(('move', k, tgt))
            if n == 4:
                edits_only_moves = True
            else:
                edits_only_moves = False
            for tgt in list(range(n)) + [None]:
                for e in (2, 20):
                    if not edits_only_moves:
                        edits.append(('add-leaf', tgt, e))
            for k in ([] if edits_only_moves else lv):
                edits.append(('estimate', k, 30))
                edits.append(('spent', k, 100))
                edits.append(('remove', k, None))
                for tgt in list(range(n)) + [None]:
                    if tgt != k and tgt != par[k]:
                        edits.append(('move', k, tgt))
            for p_ in range(n):
                for s_ in range(n):
                    if p_ != s_ and not edits_only_moves:
                        edits.append(('link', p_, s_))
            for (p_, s_) in ([] if edits_only_moves else links):
                edits.append(('unlink', p_, s_))
            for ed in edits:
                w, objs = build(par, links, attrs)
                case = {'parents': list(par), 'links': [list(x) for x in links], 'estimates': list(ests), 'edit': list(ed)}
                try:
                    first = [t.id for t in w.critical_path()]
                    kind = ed[0]
                    if kind == 'add-leaf':
                        t = Task(n + 1, name='new', estimate=ed[2])
                        if ed[1] is None:
                            w.roots.append(t)
                        else:
                            objs[ed[1]].children.append(t)
                    elif kind == 'estimate':
                        objs[ed[1]].estimate = ed[2]
                    elif kind == 'spent':
                        objs[ed[1]].spent = ed[2]
                    elif kind == 'remove':
                        w.remove(objs[ed[1]])
                    elif kind == 'move':
                        objs[ed[1]].parent = None if ed[2] is None else objs[ed[2]]
                    elif kind == 'link':
                        objs[ed[2]].predecessors.append(objs[ed[1]])
                    elif kind == 'unlink':
                        objs[ed[2]].predecessors.remove(objs[ed[1]])
                except RuntimeError:
                    continue  # the edit is not legal on this structure
                except Exception as ex:  # noqa
                    acc.violation('C12', f'critical_path/exception-{type(ex).__name__}/history', f'critical_path() raised {type(ex).__name__}: {ex}', case)
                    continue
                ids, par2, links2, durs2, external = abstract_of(w)
                if external or LY.leaf_cycle(par2, links2):
                    continue  # dependencies on tasks outside the WBS are outside the domain (a removed task stays linked)
                exp = {ids[k] for k in reference(par2, links2, durs2)}
                acc.count('evaluations')
                acc.count('history_cases')
                acc.count('nontrivial')
                try:
                    got = [t.id for t in w.critical_path()]
                    fresh = [t.id for t in w.clone().critical_path()]
                except Exception as ex:  # noqa
                    acc.violation('C12', f'critical_path/history-exception-{type(ex).__name__}/{ed[0]}',
                                  f'second critical_path() after {ed} raised {type(ex).__name__}: {ex}', case)
                    continue
                if set(got) != exp:
                    acc.violation('C12', f'critical_path/stale-after-edit/{ed[0]}',
                                  f'after {ed}: critical_path() = {sorted(got)}, zero-float leaves of the edited WBS are {sorted(exp)} '
                                  f'(first call gave {sorted(first)}, a fresh clone gives {sorted(fresh)})', case)


def run(rep):
    global _TIER
    _TIER = rep.tier
    nw = runtime.n_workers()
    k = nw * 4
    runtime.run_chunks(_work, [(i, k) for i in range(k)] + [(-i - 1, nw) for i in range(nw)], rep.acc)
    reserved_id_checks(rep.acc)
    c = rep.acc.counters
    rep.coverage.update({
        'evaluations': c['evaluations'], 'distinct_nontrivial': c['nontrivial'], 'call_edit_call_histories': c['history_cases'],
        'rule': 'all ordered forests with <= 4 tasks x all link sets (<=2 links, <=3 for <=3 tasks; links on leaves and on summaries; '
                'leaf-cycle structures excluded) x per-leaf (estimate, spent) from a dyadic menu and a decimal menu {0.1,0.2,0.3}; '
                'reference = longest path over the leaf-expanded network in exact rationals; non-trivial = inputs where some leaf has '
                'float or a dependency sits on a summary (all inputs distinct by construction); quick uses 4-value menus from 3 leaves on',
        'premises': {k[8:]: v for k, v in c.items() if k.startswith('premise:')}, 'exhaustive': True,
    })
    rep.assumptions += ['dependencies on tasks outside the WBS are excluded', 'result compared as a set of ids; order is not part of the statement']


def replay(data):
    rc = 0
    for ex in data.get('examples', []):
        c = ex['case']
        par = tuple(c['parents'])
        links = [tuple(x) for x in c['links']]
        attrs = {int(k) - 1: v for k, v in c['attrs'].items()}
        w, objs = build(par, links, attrs)
        print(c)
        try:
            print('critical_path ->', [t.id for t in w.critical_path()])
        except Exception as e:  # noqa
            print('raised', type(e).__name__, e)
        print('expected message:', ex['message'])
        rc = 1
    return rc
