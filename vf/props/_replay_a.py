"""Replay of an Engine A counterexample: drives only pjplan's public API, no explorer."""
from ..explore import bfs
from ..graphmodel import core, ops as O
from .. import runtime


def replay(data):
    rc = 0
    for ex in data.get('examples', []):
        case = ex['case']
        U = bfs.make_universe(case['universe'])

        def tup(x):
            return tuple(tup(i) for i in x) if isinstance(x, list) else x

        print('universe', case['universe'], 'ids', U.ids)
        for h in case['history']:
            op = tup(h)
            print('  ', O.describe(op))
            O.apply(U, op)
        op = tup(case['op'])
        pre = U.observe()
        pre_abs = core.abstract(pre, U.n, U.m)
        acc = runtime.Acc()
        enc = U.encode()
        bfs.run_transition(U, enc, pre, pre_abs, op, acc, (), {}, {})
        print('  >>', O.describe(op), '->', case.get('outcome'))
        for (prop, sig), (n, exs) in sorted(acc.viol.items()):
            print(f'     {prop} {sig}: {exs[0]["message"]}')
            if prop == data.get('property'):
                rc = 1
    print('REPRODUCED' if rc else 'not reproduced')
    return rc
