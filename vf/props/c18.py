"""C18: task queries against a reference predicate; bulk assignment and remove_all touch exactly the matches (Engine C)."""
import itertools
import re

from .. import runtime
from ..sched import layers as LY

LEVEL = 'exploration'
ABSENT = '<absent>'

# attribute -> per-task values for the 4 tasks of a population (ABSENT = attribute not set at all)
POPULATIONS = [
    {'name': [None, 'ab', 'ba', 'ab'], 'resource': ['ba', None, 'ab', 'ab'], 'estimate': [None, 2, 5, 2], 'spent': [5, None, 2, 0],
     'milestone': [False, True, False, True], 'tag': [ABSENT, None, 'ab', 'ba'], 'num': [2, ABSENT, None, 5], 'ticket_id': ['ab', 'ba', ABSENT, None]},
    {'name': ['ba', 'ba', None, 'ab'], 'resource': [None, None, 'ba', 'ab'], 'estimate': [5, 5, None, 2], 'spent': [None, 2, 2, 5],
     'milestone': [True, False, False, False], 'tag': ['ab', ABSENT, ABSENT, None], 'num': [None, 5, 5, ABSENT], 'ticket_id': [None, 'ab', 'ab', ABSENT]},
    # empty strings and zeros are values, not "lacking"
    {'name': ['', 'ab', None, ''], 'resource': ['ab', '', '', None], 'estimate': [0, 2, None, 0], 'spent': [0, 0, 5, None],
     'milestone': [False, False, True, False], 'tag': ['', ABSENT, 'ab', None], 'num': [0, 2, ABSENT, 0], 'ticket_id': ['', 'ba', None, 'ab']},
]
STR_ATTRS = ['name', 'resource', 'tag', 'ticket_id']
NAN = float('nan')
NUM_ATTRS = ['estimate', 'spent', 'num', 'id', 'parent_id']
STR_VALUES = ['ab', 'ba', 'zz', '']
NUM_VALUES = [2, 5, 3, 0]
REGEXES = ['^a', 'b$', '.', 'x', '^$', 'a*']


def make_tasks(pop, par=(None, None, None, None), ids=(1, 2, 3, 4)):
    from pjplan import Task, WBS
    objs = []
    for i in range(4):
        kw = {}
        for a, vals in pop.items():
            if vals[i] is not ABSENT:
                kw[a] = vals[i]
        objs.append(Task(ids[i], **kw))
    w = WBS()
    for i, t in enumerate(objs):
        if par[i] is None:
            w.roots.append(t)
        else:
            objs[par[i]].children.append(t)
    return w, objs


def value(pop, par, i, attr):
    if attr == 'id':
        return i + 1
    if attr == 'parent_id':
        return None if par[i] is None else par[i] + 1
    v = pop[attr][i]
    return None if v is ABSENT else v


def filters():
    """(kwarg name, kwarg value, reference predicate on the value)."""
    out = []
    for a in STR_ATTRS + NUM_ATTRS + ['milestone']:
        vals = STR_VALUES if a in STR_ATTRS else NUM_VALUES if a in NUM_ATTRS else [True, False]
        for v in vals + [None]:
            out.append((a, v, lambda x, v=v: x == v))
        for v in vals:
            out.append((a + '_ne_', v, lambda x, v=v: x is not None and x != v))
        if a != 'milestone':
            for v in vals:
                out.append((a + '_lt_', v, lambda x, v=v: x is not None and x < v))
                out.append((a + '_le_', v, lambda x, v=v: x is not None and x <= v))
                out.append((a + '_gt_', v, lambda x, v=v: x is not None and x > v))
                out.append((a + '_ge_', v, lambda x, v=v: x is not None and x >= v))
        colls = [(vals[0], vals[1]), (vals[1], None), ()]
        if len(vals) > 2:
            colls.append((vals[2], vals[0]))
        for c in colls:
            out.append((a + '_in_', list(c), lambda x, c=c: x in c))
            out.append((a + '_not_in_', list(c), lambda x, c=c: x not in c))
        out.append((a + '_is_none_', True, lambda x: x is None))
        out.append((a + '_is_not_none_', True, lambda x: x is not None))
        if a in STR_ATTRS:
            for r in REGEXES:
                out.append((a + '_like_', r, lambda x, r=r: x is not None and re.search(r, x) is not None))
                out.append((a + '_not_like_', r, lambda x, r=r: x is not None and re.search(r, x) is None))
    return out


def attr_of(kw):
    for suf in ('_not_like_', '_like_', '_not_in_', '_is_none_', '_is_not_none_', '_in_', '_ne_', '_le_', '_lt_', '_ge_', '_gt_'):
        if kw.endswith(suf):
            return kw[:-len(suf)], suf
    return kw, ''


def observe(w, objs):
    return tuple((t.id, id(t.parent) if t.parent else None, tuple(id(c) for c in t.children),
                  tuple(sorted((k, repr(v)) for k, v in t.to_dict().items())), t.estimate, t.spent) for t in objs) + \
        (tuple(id(t) for t in w.tasks),)


_TIER = 'quick'
PARS = [(None, None, None, None), (None, 0, 0, None), (None, 0, 1, None), (None, 0, 1, 2)]


def _work(chunk):
    i, n = chunk
    acc = runtime.Acc()
    F = filters()
    singles = [(f,) for f in F]
    if _TIER == 'thorough':
        pairs = [(a, b) for a in F for b in F if a[0] != b[0]]
    else:
        pairs = [(a, b) for ai, a in enumerate(F) for bi, b in enumerate(F) if a[0] != b[0] and (ai * 7 + bi) % 5 == 0]
    jobs = [(pi, pa, fs) for pi in range(len(POPULATIONS)) for pa in PARS[:2] for fs in singles + pairs]
    for (pi, par, fs) in jobs[i::n]:
        pop = POPULATIONS[pi]
        w, objs = make_tasks(pop, par)
        lst = w.tasks
        order = [objs.index(t) for t in lst]
        kwargs = {f[0]: f[1] for f in fs}
        exp = [k for k in order if all(f[2](value(pop, par, k, attr_of(f[0])[0])) for f in fs)]
        before = observe(w, objs)
        acc.count('evaluations')
        case = {'population': pi, 'parents': list(par), 'filters': {k: repr(v) for k, v in kwargs.items()}}
        suf = '+'.join(sorted((attr_of(f[0])[1] or 'eq') for f in fs))
        attrs = '+'.join(sorted(attr_of(f[0])[0] for f in fs))
        try:
            got = [objs.index(t) for t in lst(**kwargs)]
        except Exception as ex:  # noqa
            acc.violation('C18', f'query/raised-{type(ex).__name__}/{suf}/{attrs}', f'tasks({kwargs}) raised {type(ex).__name__}: {ex}', case)
            continue
        if observe(w, objs) != before:
            acc.violation('C18', f'query/modified-tasks/{suf}', f'tasks({kwargs}) changed something', case)
        if got != exp:
            cls = 'property-attribute' if any(attr_of(f[0])[0] in ('estimate', 'spent') for f in fs) else 'plain'
            acc.violation('C18', f'query/wrong-selection/{suf}/{cls}', f'tasks({kwargs}) selected ids {[g + 1 for g in got]}, reference {[e + 1 for e in exp]}', case)
        if 0 < len(exp) < 4:
            acc.count('nontrivial')
        if len(acc.samples) < 2 and len(fs) == 2 and 0 < len(exp) < 4:
            acc.sample(dict(case, selected=[e + 1 for e in exp]))
        # bulk assignment on the result touches exactly the matches
        if len(fs) == 1:
            try:
                lst(**kwargs).mark = 'X'
                marked = [k for k in range(4) if getattr(objs[k], 'mark', None) == 'X']
                if sorted(marked) != sorted(exp):
                    acc.violation('C18', f'bulk-assign/wrong-targets/{suf}', f'tasks({kwargs}).mark = X set it on {[m + 1 for m in marked]}, reference {[e + 1 for e in exp]}', case)
                acc.count('bulk_assignments')
            except Exception as ex:  # noqa
                acc.violation('C18', f'bulk-assign/raised-{type(ex).__name__}/{suf}', f'bulk assignment raised {ex}', case)
    # callable filter and no filter, remove_all on every shape
    if i == 0:
        for pi, pop in enumerate(POPULATIONS):
            for par in LY.forests(4):
                for fname, fn, ref in (('callable-name-ab', lambda t: t.name == 'ab', lambda k: pop['name'][k] == 'ab'),
                                       ('callable-true', lambda t: True, lambda k: True),
                                       # the documented parameter passed by its name: tasks(key=fn), remove_all(key=fn)
                                       ('callable-by-keyword', lambda t: t.name == 'ab', lambda k: pop['name'][k] == 'ab'),
                                       ('no-filter', None, lambda k: True),
                                       ('kw-milestone', None, lambda k: pop['milestone'][k] is True),
                                       ('kw-estimate', None, lambda k: value(pop, par, k, 'estimate') == 2)):
                    # ids whose printed forms are prefixes of one another (1 / 12, 2 / 25, 1 / 1.5) next to the plain 1..4
                    for target, idmap in [(tg, (1, 2, 3, 4)) for tg in ('tasks', 'W.remove_all', 'roots.remove_all', 'children.remove_all')] + \
                            [('W.remove_all', (1, 12, 2, 25)), ('W.remove_all', (12, 1, 1.5, 2)), ('roots.remove_all', (1, 12, 2, 25)),
                             ('children.remove_all', (10, 1, 12, 100))]:
                        w, objs = make_tasks(pop, par, idmap)
                        case = {'population': pi, 'parents': list(par), 'filter': fname, 'target': target, 'ids': list(idmap)}
                        kw = {'milestone': True} if fname == 'kw-milestone' else {'estimate': 2} if fname == 'kw-estimate' else {}
                        args = (fn,) if fn is not None else ()
                        if fname == 'callable-by-keyword':
                            args, kw = (), {'key': fn}
                        acc.count('evaluations')
                        acc.count('nontrivial')
                        try:
                            if target == 'tasks':
                                lst = w.tasks
                                order = [objs.index(t) for t in lst]
                                got = [objs.index(t) for t in lst(*args, **kw)]
                                exp = [k for k in order if ref(k)]
                                if got != exp:
                                    acc.violation('C18', f'query/wrong-selection/{fname}', f'selected {got}, reference {exp}', case)
                                if [objs.index(t) for t in lst()] != order:
                                    acc.violation('C18', 'query/no-filter', 'tasks() without filters must return every task in order', case)
                                continue
                            if target == 'W.remove_all':
                                scope = [objs.index(t) for t in w.tasks]
                                ret = w.remove_all(*args, **kw)
                            elif target == 'roots.remove_all':
                                scope = [objs.index(t) for t in w.roots]
                                ret = w.roots.remove_all(*args, **kw)
                            else:
                                scope = [objs.index(t) for t in objs[0].children]
                                ret = objs[0].children.remove_all(*args, **kw)
                            exp = [k for k in scope if ref(k)]
                            got = [objs.index(t) for t in ret]
                            if got != exp:
                                acc.violation('C18', f'remove_all/wrong-return/{target}/{fname}', f'returned {got}, matches are {exp}', case)
                            # expected remaining members: everything not in a removed subtree
                            gone = set()

                            def sub(k):
                                out = [k]
                                for c in range(4):
                                    if par[c] == k:
                                        out += sub(c)
                                return out
                            for k in exp:
                                gone |= set(sub(k))
                            remain = [k for k in range(4) if k not in gone]
                            now = [objs.index(t) for t in w.tasks]
                            if now != remain:
                                acc.violation('C18', f'remove_all/wrong-remaining/{target}/{fname}', f'WBS now holds {now}, expected {remain}', case)
                            for k in gone:
                                if objs[k].wbs is not None:
                                    acc.violation('C18', f'remove_all/removed-task-keeps-owner/{target}', f'task {k + 1} still reports a WBS', case)
                        except Exception as ex:  # noqa
                            acc.violation('C18', f'{target}/raised-{type(ex).__name__}/{fname}', f'{target} raised {type(ex).__name__}: {ex}', case)
    return acc


def restate_checks(acc):
    """Nothing about an earlier query may be remembered: query, change the attribute the filter reads (or the hierarchy),
    query again on the same list object - the second answer is the one for the changed tasks."""
    F = filters()
    for pi, pop in enumerate(POPULATIONS):
        for f in F:
            attr, suf = attr_of(f[0])
            if attr in ('id', 'parent_id'):
                continue
            w, objs = make_tasks(pop, PARS[1])
            lst = w.tasks
            try:
                first = [objs.index(t) for t in lst(**{f[0]: f[1]})]
            except Exception:  # noqa
                continue
            # rotate the attribute values among the tasks
            vals = [value(pop, PARS[1], k, attr) for k in range(4)]
            rot = vals[1:] + vals[:1]
            try:
                for k in range(4):
                    setattr(objs[k], attr, rot[k])
            except Exception:  # noqa
                continue
            exp = [k for k in [objs.index(t) for t in w.tasks] if f[2](rot[k])]
            acc.count('evaluations')
            acc.count('requery_after_change')
            if exp != first:
                acc.count('nontrivial')
            case = {'population': pi, 'filter': {f[0]: repr(f[1])}, 'attribute_values_after_change': [repr(v) for v in rot]}
            for which, l2 in (('same-list-object', lst), ('fresh-list', w.tasks)):
                got = [objs.index(t) for t in l2(**{f[0]: f[1]})]
                if got != exp:
                    acc.violation('C18', f'query/stale-after-attribute-change/{suf or "eq"}/{which}',
                                  f'after changing {attr}: tasks({f[0]}={f[1]!r}) selected {[g + 1 for g in got]}, reference {[e + 1 for e in exp]}', case)


def partial_order_checks(acc):
    """Comparison filters on values that are not totally ordered: sets (neither <= nor >= for overlapping sets) and NaN.
    `x_le_=v` selects the tasks with x <= v - not the tasks for which x > v is false."""
    import operator
    from pjplan import Task, WBS
    tagsets = [frozenset({'api'}), frozenset({'api', 'db'}), frozenset({'db'}), None, frozenset()]
    nums = [NAN, 2, 5, None, 0]
    ops_ = {'_lt_': operator.lt, '_le_': operator.le, '_gt_': operator.gt, '_ge_': operator.ge}
    w = WBS()
    objs = []
    for i in range(5):
        kw = {}
        if tagsets[i] is not None:
            kw['tags'] = set(tagsets[i])
        if nums[i] is not None:
            kw['num'] = nums[i]
        t = Task(i + 1, 'n%d' % i, **kw)
        objs.append(t)
        w.roots.append(t)
    for suf, fn in ops_.items():
        for v in (frozenset({'db'}), frozenset({'api', 'db'}), frozenset()):
            exp = [k for k in range(5) if tagsets[k] is not None and fn(tagsets[k], v)]
            got = [objs.index(t) for t in w.tasks(**{'tags' + suf: set(v)})]
            acc.count('evaluations')
            acc.count('nontrivial')
            if got != exp:
                acc.violation('C18', f'query/wrong-selection/{suf}/partially-ordered-values',
                              f'tasks(tags{suf}={set(v)!r}) selected {[g + 1 for g in got]}, reference {[e + 1 for e in exp]}', {'values': 'sets'})
        for v in (2, 3, NAN):
            exp = [k for k in range(5) if nums[k] is not None and fn(nums[k], v)]
            got = [objs.index(t) for t in w.tasks(**{'num' + suf: v})]
            acc.count('evaluations')
            acc.count('nontrivial')
            if got != exp:
                acc.violation('C18', f'query/wrong-selection/{suf}/nan',
                              f'tasks(num{suf}={v!r}) selected {[g + 1 for g in got]}, reference {[e + 1 for e in exp]}', {'values': 'nan'})


def link_list_checks(acc):
    """Dependency lists are task lists too, and they may hold tasks of several WBSs - ids are unique per WBS only: a task with
    predecessors / successors from two other plans that use the same ids. Queries, bulk assignment and remove_all on such a list."""
    from pjplan import Task, WBS

    def world():
        x, y, z = WBS(), WBS(), WBS()
        hub = Task(1, name='hub')
        x.roots.append(hub)
        a1, b1 = Task(2, name='ab', num=2), Task(3, name='ab', num=5)
        a2, c2 = Task(2, name='ba', num=5), Task(1, name='ab', num=2)
        y.roots.append(a1)
        y.roots.append(b1)
        z.roots.append(a2)
        z.roots.append(c2)
        return hub, [a1, b1, a2, c2]

    queries = [('id=2', {'id': 2}), ('id=2,name=ba', {'id': 2, 'name': 'ba'}), ('id=2,num=5', {'id': 2, 'num': 5}), ('id=1', {'id': 1}),
               ('id=3', {'id': 3}), ('id=7', {'id': 7}), ('id_in_=[2]', {'id_in_': [2]}), ('name=ab', {'name': 'ab'}),
               ('name=ab,id=2', {'name': 'ab', 'id': 2}), ('num_ge_=3,id=2', {'num_ge_': 3, 'id': 2})]

    def matches(t, kw):
        for k, v in kw.items():
            if k.endswith('_in_'):
                if getattr(t, k[:-4]) not in v:
                    return False
            elif k.endswith('_ge_'):
                if not getattr(t, k[:-4]) >= v:
                    return False
            elif getattr(t, k) != v:
                return False
        return True

    for side in ('predecessors', 'successors'):
        for order in ((0, 1, 2, 3), (2, 3, 0, 1), (3, 2, 1, 0)):
            for qname, kw in queries:
                for action in ('query', 'assign', 'remove_all'):
                    hub, others = world()
                    linked = [others[k] for k in order]
                    setattr(hub, side, linked)
                    lst = getattr(hub, side)
                    exp = [t for t in lst if matches(t, kw)]
                    case = {'list': f'hub.{side}', 'members (id, name, num)': [(t.id, t.name, t.num) for t in lst], 'filter': qname, 'action': action}
                    acc.count('evaluations')
                    acc.count('link_list_cases')
                    if 0 < len(exp) < 4:
                        acc.count('nontrivial')
                    try:
                        if action == 'query':
                            got = list(lst(**kw))
                            if [id(t) for t in got] != [id(t) for t in exp]:
                                acc.violation('C18', 'query/wrong-selection/link-list-with-equal-ids', f'hub.{side}({qname}) selected '
                                              f'{[(t.id, t.name) for t in got]}, reference {[(t.id, t.name) for t in exp]}', case)
                        elif action == 'assign':
                            lst(**kw).mark = 'X'
                            marked = [t for t in others if getattr(t, 'mark', None) == 'X']
                            if {id(t) for t in marked} != {id(t) for t in exp}:
                                acc.violation('C18', 'bulk-assign/wrong-targets/link-list-with-equal-ids', f'hub.{side}({qname}).mark = X set it on '
                                              f'{[(t.id, t.name) for t in marked]}, reference {[(t.id, t.name) for t in exp]}', case)
                        else:
                            ret = list(lst.remove_all(**kw))
                            left = list(getattr(hub, side))
                            if [id(t) for t in ret] != [id(t) for t in exp]:
                                acc.violation('C18', 'remove_all/wrong-return/link-list-with-equal-ids', f'hub.{side}.remove_all({qname}) returned '
                                              f'{[(t.id, t.name) for t in ret]}, matches are {[(t.id, t.name) for t in exp]}', case)
                            if [id(t) for t in left] != [id(t) for t in linked if not matches(t, kw)]:
                                acc.violation('C18', 'remove_all/wrong-remaining/link-list-with-equal-ids', f'after hub.{side}.remove_all({qname}) the list '
                                              f'holds {[(t.id, t.name) for t in left]}', case)
                    except Exception as ex:  # noqa
                        acc.violation('C18', f'query/raised-{type(ex).__name__}/link-list-with-equal-ids', f'{action} hub.{side}({qname}) raised {ex}', case)


def run(rep):
    global _TIER
    _TIER = rep.tier
    nw = runtime.n_workers()
    k = nw * 2
    runtime.run_chunks(_work, [(i, k) for i in range(k)], rep.acc)
    restate_checks(rep.acc)
    partial_order_checks(rep.acc)
    link_list_checks(rep.acc)
    c = rep.acc.counters
    rep.coverage.update({
        'evaluations': c['evaluations'], 'distinct_nontrivial': c['nontrivial'], 'requery_after_change': c['requery_after_change'],
        'rule': 'two 4-task populations (each attribute present/None/absent/two values) x two hierarchies x every single filter '
                '(%d: every suffix x every attribute x value alphabet) and %s pairs of filters on different keywords, compared with a '
                'reference predicate; bulk assignment on every single-filter result; callable / keyword filters through tasks(), '
                'WBS.remove_all, roots.remove_all, children.remove_all on all 14 four-task hierarchies. non-trivial = queries selecting '
                'a proper non-empty subset' % (len(filters()), 'all' if rep.tier == 'thorough' else 'one fifth of the'),
        'bulk_assignments': c['bulk_assignments'], 'exhaustive': True,
    })
    rep.assumptions += ['comparisons between incomparable types and patterns on non-strings (TypeError) are outside the statement',
                        'a task lacking an attribute has value None for equality, membership and absence filters']


def replay(data):
    for ex in data.get('examples', []):
        print(ex['message'], ex['case'])
    return 1
