"""Shared driver for the Engine B properties (C02, C03, C04, C06, C07, C08, C09, C14)."""
import itertools
from datetime import timedelta

from .. import runtime, seams
from ..explore import choice
from ..sched import layers as LY, oracles as OR, scenario as SCN
from ..sched.scenario import (Scenario, SchedObs, execute, build, BuildRejected, make_resources, make_scheduler, DAY, MON)

LEVEL = 'exploration'

_PROP = None
_TIER = None


def outcome_key(ob):
    return (tuple((t, ob.by_id[t].start, ob.by_id[t].end, ob.by_id[t].estimate, ob.by_id[t].spent) for t in ob.order),
            tuple((getattr(r[0], 'name', None), r[1], r[2], r[3]) for r in ob.rows))


def clock_menu(sc):
    S = sc.anchor
    d0 = seams.midnight(S)
    return [S - 30 * DAY, S, d0 + timedelta(hours=23, minutes=30), d0 + DAY + timedelta(hours=12), S + 10 * DAY]


# which input layers feed which property
def plan(prop, tier):
    f, b = ('fwd',), ('bwd',)
    both = ('fwd', 'bwd')
    P = {
        'C02': [('L3y', lambda: LY.L3y(tier, f)), ('L7s', lambda: LY.L7s(tier, f)), ('L2c', lambda: LY.L2c(tier)), ('L1', lambda: LY.L1(tier, f)), ('L1x', lambda: LY.L1x(tier, f)), ('L1y', lambda: LY.L1y(tier, f)), ('L2', lambda: LY.L2(tier, f)), ('L3', lambda: LY.L3(tier, f)),
                ('L6', lambda: (s for s in LY.L6(tier) if s.sched == 'fwd')), ('L4clock', lambda: LY.L4_inputs(tier, f)),
                ('L4cal', lambda: LY.L4_inputs(tier, f))],
        'C03': [('L3y', lambda: LY.L3y(tier)), ('L7s', lambda: LY.L7s(tier)), ('L2c', lambda: LY.L2c(tier)), ('L1', lambda: LY.L1(tier)), ('L1x', lambda: LY.L1x(tier)), ('L1y', lambda: LY.L1y(tier)), ('L2', lambda: LY.L2(tier)), ('L3', lambda: LY.L3(tier)),
                ('L7', lambda: LY.L3(tier, decimal=True)), ('L4cal', lambda: LY.L4_inputs(tier)), ('L3long', lambda: LY.L3long(tier))],
        'C04': [('L3y', lambda: LY.L3y(tier)), ('L7s', lambda: LY.L7s(tier)), ('L2c', lambda: LY.L2c(tier)), ('L1', lambda: LY.L1(tier)), ('L1x', lambda: LY.L1x(tier)), ('L1y', lambda: LY.L1y(tier)), ('L2', lambda: LY.L2(tier)), ('L3', lambda: LY.L3(tier)),
                ('L7', lambda: LY.L3(tier, decimal=True)), ('L3long', lambda: LY.L3long(tier))],
        'C07': [('L3y', lambda: LY.L3y(tier)), ('L7s', lambda: LY.L7s(tier)), ('L2c', lambda: LY.L2c(tier)), ('L1', lambda: LY.L1(tier)), ('L1x', lambda: LY.L1x(tier)), ('L1y', lambda: LY.L1y(tier)), ('L2', lambda: LY.L2(tier)), ('L3', lambda: LY.L3(tier)),
                ('L6', lambda: LY.L6(tier)), ('L2b', lambda: LY.L2b(tier))],
        'C08': [('L3y', lambda: LY.L3y(tier, f)), ('L7s', lambda: LY.L7s(tier, f)), ('L2c', lambda: LY.L2c(tier)), ('L1', lambda: LY.L1(tier, f, (True, False))), ('L1x', lambda: LY.L1x(tier, f)), ('L1y', lambda: LY.L1y(tier, f)), ('L3', lambda: LY.L3(tier, f)),
                ('L7', lambda: LY.L3(tier, f, decimal=True)), ('L4cal', lambda: LY.L4_inputs(tier, f)), ('L3long', lambda: LY.L3long(tier, f))],
        'C09': [('L3y', lambda: LY.L3y(tier, b)), ('L7s', lambda: LY.L7s(tier, b)), ('L1', lambda: LY.L1(tier, b)), ('L1x', lambda: LY.L1x(tier, b)), ('L1y', lambda: LY.L1y(tier, b)), ('L3', lambda: LY.L3(tier, b)), ('L4cal', lambda: LY.L4_inputs(tier, b)),
                ('L2', lambda: LY.L2(tier, b)), ('L3long', lambda: LY.L3long(tier, b))],
        'C14': [('L3y', lambda: LY.L3y(tier)), ('L7s', lambda: LY.L7s(tier)), ('L2c', lambda: LY.L2c(tier)), ('L1', lambda: LY.L1(tier, include_cycles=True)), ('L1x', lambda: LY.L1x(tier)), ('L1y', lambda: LY.L1y(tier)), ('L2', lambda: LY.L2(tier)), ('L3', lambda: LY.L3(tier)),
                ('L6', lambda: LY.L6(tier, include_cycles=True)), ('L7', lambda: LY.L3(tier, decimal=True)), ('L5', lambda: LY.L5(tier)), ('L2b', lambda: LY.L2b(tier)), ('L3long', lambda: LY.L3long(tier)), ('L5b', lambda: LY.L5b(tier)),
                ('L4cal', lambda: LY.L4_inputs(tier))],
    }
    sch = {'C02': f, 'C08': f, 'C09': b}.get(prop, both)
    P[prop].append(('L8', lambda: LY.L8(tier, sch)))
    P[prop].append(('L7m', lambda: LY.L7m(tier, sch)))
    P[prop].append(('L1p', lambda: LY.L1p(tier, sch)))
    P[prop].append(('L8b', lambda: LY.L8b(tier, sch)))
    P[prop].append(('LS', lambda: LY.LS(tier, sch)))
    P[prop].append(('L1neg', lambda: LY.L1neg(tier, sch)))
    P[prop].append(('L1i', lambda: LY.L1i(tier, sch)))
    P[prop].append(('LX', lambda: LY.LX(tier, sch)))
    if prop in ('C03', 'C04', 'C14', 'C07'):
        P[prop].append(('L7t', lambda: LY.L7t(tier)))
    if prop in ('C02', 'C07', 'C14', 'C09', 'C03', 'C04'):
        P[prop].append(('L6r', lambda: (s for s in LY.L6r(tier) if s.sched in sch)))
    if prop in ('C03', 'C04'):
        # tasks of another project linked with tasks of this one, also when both projects number their tasks from 1
        P[prop].append(('L6', lambda: LY.L6(tier)))
    if prop in ('C03', 'C04', 'C14'):
        P[prop].append(('L2ms', lambda: LY.L2ms(tier)))
    if prop in ('C07', 'C14', 'C04', 'C03'):
        P[prop].append(('L2n', lambda: LY.L2n(tier)))
    if prop != 'C09':
        P[prop].append(('L2m', lambda: LY.L2m(tier, both if prop == 'C14' else f)))
    return P[prop] + ([('HC', None)] if prop in ('C02', 'C03', 'C04', 'C07', 'C08', 'C09', 'C14') else [])


ORACLE = {'C02': OR.c02, 'C03': OR.c03, 'C04': OR.c04, 'C07': OR.c07, 'C08': OR.c08, 'C09': OR.c09}


def _mk_V(acc, prop, sc, extra=None):
    fired = []

    def V(clause, trigger, message):
        sig = f"{sc.sched}/{'bal' if sc.balance else 'nobal'}/{clause}/{trigger}"
        case = {'scenario': sc.to_json()}
        if extra:
            case.update(extra)
        acc.violation(prop, sig, message, case)
        fired.append(clause)

    return V, fired


def evaluate(prop, sc, ex, acc, extra=None, expected=None):
    """Apply the property's oracle to one finished execution."""
    prem = []

    def Pm(name):
        acc.count('premise:' + name)
        prem.append(name)

    V, fired = _mk_V(acc, prop, sc, extra)
    acc.count('executions')
    acc.count('executions:' + sc.layer)
    if prop == 'C14':
        OR.c14_outcome(sc, ex, V, Pm, expected)
        acc.count('outcome:' + ex.status + (':' + type(ex.error).__name__ if ex.error is not None else ''))
        if ex.status != 'ok' or expected:
            acc.count('nontrivial')
        if ex.lookups > 50000:
            acc.count('premise:horizon-length-search')
        return None
    if ex.status == 'timeout':
        # like an exception escaping from the library: the property promises a schedule here and calc never came back
        V('calc-does-not-terminate', '-', 'calc was still running after the watchdog limit')
        return None
    if ex.status != 'ok':
        acc.count('not-scheduled:' + (type(ex.error).__name__ if ex.error is not None else ex.status))
        return None
    ob = SchedObs(ex)
    ctx = OR.Ctx(sc)
    if set(ob.order) == {t[0] for t in sc.tasks}:
        OR.install_declared(sc, ob)
    ORACLE[prop](sc, ctx, ex, ob, V, Pm)
    if prop == 'C08' and not sc.balance:
        c08_metamorphic(sc, ctx, ex, ob, V, Pm)
    if prem:
        acc.count('nontrivial')
    acc.outcome(outcome_key(ob))
    return ob


def c08_metamorphic(sc, ctx, ex, ob, V, P):
    """Balancing off: a task's dates do not change when unrelated tasks are removed."""
    if sc.sched != 'fwd' or sc.ext or sc.layer == 'HC':
        return
    n = len(sc.tasks)
    par = ctx.par
    for u in range(n):
        if u in par:
            continue  # remove leaves only
        sibs = [j for j in range(n) if par[j] == par[u] and j != u]
        if par[u] is not None and not sibs:
            continue  # removal would turn its parent into a leaf
        # rebuild scenario without u
        keep = [j for j in range(n) if j != u]
        remap = {j: k for k, j in enumerate(keep)}
        tasks2 = [(sc.tasks[j][0], None if par[j] is None else remap[par[j]], dict(sc.tasks[j][2])) for j in keep]
        links2 = [(remap[p], remap[s]) for p, s in sc.links if p != u and s != u]
        sc2 = Scenario(sc.sched, sc.balance, sc.anchor, tasks2, links2, sc.cals, sc.dflt, sc.clock, layer=sc.layer)
        try:
            ex2 = execute(sc2)
        except BuildRejected:
            continue
        if ex2.status != 'ok':
            continue
        ob2 = SchedObs(ex2)
        uid = sc.tasks[u][0]
        # tasks that transitively wait for u (through prereq, closed) are related
        waits = set()
        changed = True
        dep = {t: {x[0] for x in OR.prereq_ends(ob, t)} for t in ob.order if not ob.by_id[t].children}
        waits = {t for t, d in dep.items() if uid in d}
        while changed:
            changed = False
            for t, d in dep.items():
                if t not in waits and d & waits:
                    waits.add(t)
                    changed = True
        for t in ob2.order:
            o2, o1 = ob2.by_id[t], ob.by_id[t]
            if o1.children or t in waits or t == uid:
                continue
            if uid in ob.ancestors(t):
                continue
            P('unrelated-task-removed')
            if o1.start != o2.start or o1.end != o2.end:
                V('dates-change-when-unrelated-task-removed', '-',
                  f'task {t}: [{o1.start}, {o1.end}] with task {uid} present, [{o2.start}, {o2.end}] without it')


def run_plain(prop, sc, acc, expected=None):
    try:
        ex = execute(sc)
    except BuildRejected:
        acc.count('build_rejected')
        return
    ob = evaluate(prop, sc, ex, acc, expected=expected)
    # replay determinism on a fixed 1-in-64 subset
    if ob is not None and runtime.stable_hash(sc.key()) % 64 == 0:
        ex2 = execute(sc)
        acc.count('replayed_for_determinism')
        if ex2.status != 'ok' or outcome_key(SchedObs(ex2)) != outcome_key(ob):
            # every seam (clock, calendars, budget) is reset per execution, so the library carried something over from the earlier
            # calc: the second schedule of this same input is judged by the oracle as well; only if it passes too is this a harness error
            before = sum(v[0] for v in acc.viol.values())
            if ex2.status == 'ok':
                evaluate(prop, sc, ex2, acc, extra={'history': 'the same input scheduled a second time by a fresh scheduler with fresh resources'},
                         expected=expected)
            else:
                V, _ = _mk_V(acc, prop, sc, {'history': 'the same input scheduled a second time by a fresh scheduler with fresh resources'})
                V('second-calc-of-same-input-fails', '-', f'first calc gave a schedule, an identical second one did not: {ex2.error!r}')
            if sum(v[0] for v in acc.viol.values()) > before:
                return
            raise runtime.HarnessError('replay nondeterminism: the same scenario gave two different schedules: ' + sc.key()[:300])


def run_clock_tree(prop, sc, acc, bound):
    menu = clock_menu(sc)
    sc2 = Scenario(sc.sched, sc.balance, sc.anchor, sc.tasks, sc.links, {'A': 'none'}, sc.dflt, None, layer='L4clock')
    for start_pos in range(len(menu)):
        def run(ch):
            seams.CLOCK.set_script(menu, ch, start_pos)
            return execute_with_clock(sc2, ch, menu, start_pos)
        for choices, trace, ex in choice.explore(run, bound):
            acc.count('choice_points', len(trace))
            evaluate(prop, sc2, ex, acc, extra={'clock_menu': [m.isoformat() for m in menu], 'clock_start_pos': start_pos,
                                                'decisions': list(choices)})


def execute_with_clock(sc, ch, menu, start_pos):
    class _M(list):
        pass
    m = _M(menu)
    m.start_pos = start_pos
    return execute(sc, chooser=ch, clock_menu=m)


def run_cal_tree(prop, sc, acc, bound):
    def run(ch):
        return execute(sc, chooser=ch)
    for choices, trace, ex in choice.explore(run, bound):
        acc.count('choice_points', len(trace))
        days = {}
        for lz in ex.lazy:
            days.update({d.strftime('%Y-%m-%d'): v for d, v in lz.memo.items() if v != 8})
        evaluate(prop, sc, ex, acc, extra={'decisions': list(choices), 'non_default_days': days})


def calendar_edit_histories(prop, acc, compare_fresh=False):
    """calc; the resource's dated calendar is edited (a day off is cancelled / a new day off is added); calc again on the SAME
    scheduler and resource objects. The second schedule is judged against the calendar as it is now."""
    from pjplan import DirectCalendar, WeeklyCalendar, Resource
    from ..sched import scenario as SC
    Counting, _ = SC._cls()
    for sched_kind in (('fwd',) if prop in ('C02', 'C08') else (('bwd',) if prop == 'C09' else ('fwd', 'bwd'))):
        A = MON if sched_kind == 'fwd' else MON + 21 * DAY
        near = [A + DAY, A + 2 * DAY] if sched_kind == 'fwd' else [A - 4 * DAY, A - 5 * DAY]
        for bal in (True, False):
            for ests in ((12, 4), (4, 12), (20, 8)):
                for edit in ('cancel-day-off', 'add-day-off', 'halve-a-day'):
                    days_off = DirectCalendar({near[0]: 8})
                    cal = WeeklyCalendar(days=[0, 1, 2, 3, 4], units_per_day=8) - days_off
                    resources = [Resource('A', Counting(cal))]
                    attrs = {i: {'estimate': e, 'resource': 'A'} for i, e in enumerate(ests)}
                    # cals names the resource as supplied (the calendar object itself is built here, not from a menu)
                    sc = Scenario(sched_kind, bal, A, LY.mk_tasks((None, None), attrs), [], cals={'A': 'custom-edited-later'}, layer='HC')
                    sch = make_scheduler(sc, resources)
                    execute(sc, scheduler=sch)
                    if edit == 'cancel-day-off':
                        days_off.set_units({near[0]: 0})
                    elif edit == 'add-day-off':
                        days_off.set_units({near[1]: 8})
                    else:
                        days_off.set_units({near[1]: 4})
                    ex2 = execute(sc, scheduler=sch)
                    acc.count('premise:calc-after-calendar-edit')
                    if prop == 'C06' or compare_fresh:
                        ex3 = execute(sc, scheduler=make_scheduler(sc, resources))
                        acc.count('executions', 2)
                        acc.count('nontrivial')
                        k2 = outcome_key(SchedObs(ex2)) if ex2.status == 'ok' else ex2.status
                        k3 = outcome_key(SchedObs(ex3)) if ex3.status == 'ok' else ex3.status
                        if k2 != k3:
                            V, _ = _mk_V(acc, 'C06', sc, {'calendar_edit': edit})
                            V('result-after-calendar-edit-depends-on-earlier-call', edit,
                              'after the calendar changed, the scheduler that had already been used gives another schedule than a fresh one')
                    else:
                        evaluate(prop, sc, ex2, acc, extra={'calendar_edit': edit, 'note': 'second calc on the same scheduler after the edit'})


def default_resource_histories(prop, acc):
    """A schedule is computed without supplying resources; the caller edits the default resource object it got back (a what-if
    calendar); a NEW scheduler then schedules the same WBS. The new scheduler must again create a Monday-Friday 8-unit default
    and give the result of any fresh scheduler (nothing shared between scheduler objects)."""
    from pjplan import WeeklyCalendar
    for sched_kind in ('fwd', 'bwd'):
        A = MON if sched_kind == 'fwd' else MON + 21 * DAY
        for rn in ('A', None):
            for bal in (True, False):
                attrs = {0: {'estimate': 12, 'resource': rn}, 1: {'estimate': 4, 'resource': rn}}
                sc = Scenario(sched_kind, bal, A, LY.mk_tasks((None, None), attrs), [], layer='HD')
                ex1 = execute(sc)
                if ex1.status != 'ok':
                    continue
                k1 = outcome_key(SchedObs(ex1))
                for r in ex1.result.resources:
                    r.calendar = WeeklyCalendar(days=[5, 6], units_per_day=4)
                ex2 = execute(sc)
                acc.count('premise:new-scheduler-after-default-resource-was-edited')
                if prop == 'C06':
                    acc.count('executions', 2)
                    acc.count('nontrivial')
                    k2 = outcome_key(SchedObs(ex2)) if ex2.status == 'ok' else ex2.status
                    if k2 != k1:
                        V, _ = _mk_V(acc, 'C06', sc, {'history': 'calc; edit returned default resource; fresh scheduler calc'})
                        V('fresh-scheduler-result-depends-on-earlier-scheduler', '-',
                          'a new scheduler with equal inputs gives another schedule after the default resource returned by an earlier scheduler was edited')
                else:
                    evaluate(prop, sc, ex2, acc, extra={'history': 'calc; edit returned default resource; fresh scheduler calc'})


def reuse_histories(prop, acc):
    """Two plans made with the SAME supplied Resource objects: another WBS is scheduled first (successfully, or failing in the
    middle of the pass because a resource's calendar runs out), then the WBS under test is scheduled on the same scheduler
    object or on a new scheduler given the same resource objects. The second schedule is judged by the property's oracle as if
    it were the only one (C06: it must equal the schedule of a fresh scheduler with fresh resources)."""
    from pjplan import WeeklyCalendar, Resource
    from ..sched import scenario as SC
    Counting, _ = SC._cls()
    kinds = ('fwd',) if prop in ('C02', 'C08') else (('bwd',) if prop == 'C09' else ('fwd', 'bwd'))
    seconds = [((None, None, None), ((0, 1),), (4, 12, 8), None), ((None, 0, 0, None), ((0, 3),), (None, 12, 4, 8), None),
               ((None, None), (), (20, 2.5), None),
               # the same two ids as in the first plan, now linked: the second task waits for two and a half days of work on the
               # other resource (what was remembered about id 2 when it had no prerequisite must not be used)
               ((None, None), ((0, 1),), (20, 4), None), ((None, None), ((1, 0),), (4, 20), None),
               # the ids of the first plan (1, 2) now sit below a NEW summary (id 3): the tasks were grouped after the first calc
               ((None, 0, 0), (), (None, 12, 4), (3, 1, 2))]
    for sched_kind in kinds:
        A = MON if sched_kind == 'fwd' else MON + 28 * DAY
        for bal in (True, False):
            for first in ('ok', 'fails'):
                for mode in ('same-scheduler', 'new-scheduler-same-resources'):
                    for par, links, ests, idorder in seconds:
                        def mkres():
                            # B's calendar ends (forward) / begins (backward) a week from the anchor: too much work on B fails
                            if sched_kind == 'fwd':
                                calb = WeeklyCalendar(days=[0, 1, 2, 3, 4], units_per_day=8, end=A + 7 * DAY)
                            else:
                                calb = WeeklyCalendar(days=[0, 1, 2, 3, 4], units_per_day=8, start=A - 7 * DAY)
                            return [Resource('A', Counting(WeeklyCalendar(days=[0, 1, 2, 3, 4], units_per_day=8))), Resource('B', Counting(calb))]
                        resources = mkres()
                        cals = {'A': 'custom-edited-later', 'B': 'custom-edited-later'}
                        # first plan: task 1 on A is scheduled, then task 2 on B (60 h do not fit into B's calendar when first == 'fails')
                        a1 = {0: {'estimate': 12, 'resource': 'A'}, 1: {'estimate': 60 if first == 'fails' else 8, 'resource': 'B'}}
                        sc1 = Scenario(sched_kind, bal, A, LY.mk_tasks((None, None), a1), [], cals=cals, layer='HC')
                        lv = [i for i in range(len(par)) if LY.is_leaf(par, i)]
                        a2 = {i: {'estimate': ests[i], 'resource': 'AB'[k % 2]} for k, i in enumerate(lv)}
                        tasks2 = LY.mk_tasks(par, a2)
                        if idorder is not None:
                            tasks2 = [(idorder[k], p_, a_) for k, (_, p_, a_) in enumerate(tasks2)]
                        sc2 = Scenario(sched_kind, bal, A, tasks2, list(links), cals=cals, layer='HC')
                        sch = make_scheduler(sc1, resources)
                        ex1 = execute(sc1, scheduler=sch)
                        if (ex1.status == 'ok') != (first == 'ok'):
                            if first == 'ok' and prop != 'C06':
                                # a plain two-task plan on two Monday-Friday resources was not scheduled
                                V, _ = _mk_V(acc, prop, sc1, {'history': 'first plan of a reuse history'})
                                V('no-schedule-for-plain-plan', mode, f'calc did not return a schedule: {ex1.error!r}')
                            acc.count('reuse_history_premise_not_met')
                            continue
                        sch2 = sch if mode == 'same-scheduler' else make_scheduler(sc2, resources)
                        ex2 = execute(sc2, scheduler=sch2)
                        acc.count('premise:calc-after-%s-calc-with-same-resources' % ('failed' if first == 'fails' else 'another'))
                        extra = {'history': f'first another WBS ({first}) with the same Resource objects; then this WBS on {mode}'}
                        if prop == 'C06':
                            ex3 = execute(sc2, scheduler=make_scheduler(sc2, mkres()))
                            acc.count('executions', 2)
                            acc.count('nontrivial')
                            k2 = outcome_key(SchedObs(ex2)) if ex2.status == 'ok' else ex2.status
                            k3 = outcome_key(SchedObs(ex3)) if ex3.status == 'ok' else ex3.status
                            if k2 != k3:
                                V, _ = _mk_V(acc, 'C06', sc2, extra)
                                V('result-depends-on-earlier-calc', f'{first}/{mode}',
                                  'a scheduler / resource objects that were used for another plan before give another schedule than fresh ones: '
                                  + (repr(ex2.error) if ex2.status != 'ok' else 'schedules differ'))
                        else:
                            evaluate(prop, sc2, ex2, acc, extra=extra)
                            if ex2.status != 'ok' and prop != 'C14':
                                V, _ = _mk_V(acc, prop, sc2, extra)
                                V('no-schedule-after-earlier-calc', f'{first}/{mode}', f'the second plan was not scheduled: {ex2.error!r}')


def replan_histories(prop, acc):
    """A result is planned again: the schedule returned by calc is taken as the new input, the dates of its leaves are reopened
    (summaries keep the values the first run rolled up), and a fresh scheduler of the same kind plans it. The second result is
    judged like a first one (nothing the first run left on the tasks may matter)."""
    kinds = ('fwd',) if prop in ('C02', 'C08') else (('bwd',) if prop == 'C09' else ('fwd', 'bwd'))
    for sc in LY.L1('quick', kinds, balances=(True,), anchors=[MON], nmax=3):
        if not sc.links and all(p_ is None for _, p_, _ in sc.tasks):
            continue
        ex1 = execute(sc)
        if ex1.status != 'ok':
            continue
        R = ex1.result.schedule
        try:
            objs2 = [R[tid] for tid, _, _ in sc.tasks]
        except RuntimeError:
            continue
        for t in objs2:
            # forward: a future end on any task is a reason to refuse the plan, so all dates are reopened; backward: the summaries
            # keep the dates the first run gave them
            if len(t.children) == 0 or sc.sched == 'fwd':
                t.start = None
                t.end = None
        sc2 = Scenario(sc.sched, sc.balance, sc.anchor, sc.tasks, sc.links, sc.cals, sc.dflt, sc.clock, layer='HC')
        ex2 = execute(sc2, prebuilt=(R, objs2, []))
        acc.count('premise:result-planned-again')
        extra = {'history': 'calc; the returned schedule with reopened leaf dates is planned again by a fresh scheduler'}
        evaluate(prop, sc2, ex2, acc, extra=extra)
        if ex2.status != 'ok' and prop != 'C14':
            V, _ = _mk_V(acc, prop, sc2, extra)
            V('no-schedule-when-planned-again', '-', f'the second plan was not scheduled: {ex2.error!r}')


def _work(chunk):
    prop, tier, lname, i, n = chunk
    acc = runtime.Acc()
    if lname == 'HC':
        if i == 0:
            calendar_edit_histories(prop, acc)
            if prop in ('C03', 'C04', 'C14'):
                default_resource_histories(prop, acc)
        if i == 1:
            reuse_histories(prop, acc)
        if i == 2:
            replan_histories(prop, acc)
        return acc
    gen = dict(plan(prop, tier))[lname]()
    bound_cal = 2 if tier == 'quick' else 3
    if prop in ('C14', 'C03') and tier == 'quick':
        bound_cal = 1
    for sc in itertools.islice(gen, i, None, n):
        expected = None
        if isinstance(sc, tuple):
            sc, expected = sc
        if lname == 'L4clock':
            run_clock_tree(prop, sc, acc, 2)
        elif lname == 'L4cal':
            run_cal_tree(prop, sc, acc, bound_cal)
        else:
            if prop == 'C14' and sc.layer in ('L1c', 'L6c'):
                expected = 'leaf-cycle'
            run_plain(prop, sc, acc, expected)
        if acc.counters['executions'] and len(acc.samples) < 2 and acc.counters['nontrivial']:
            acc.sample({'layer': lname, 'scenario': sc.to_json()})
        if SCN.TIMEOUTS:
            # a calc that does not terminate has been reported; the rest of this chunk would only wait for the watchdog again
            acc.count('chunks_cut_short_after_watchdog')
            break
    return acc


def run(rep, prop):
    seams.clock_canary()
    tier = rep.tier
    nw = runtime.n_workers()
    chunks = []
    for lname, _ in plan(prop, tier):
        k = nw * 2
        chunks += [(prop, tier, lname, i, k) for i in range(k)]
    # fixed permutation of the work order by seed: verdicts cannot depend on it
    if rep.seed:
        r = rep.seed % len(chunks)
        chunks = chunks[r:] + chunks[:r]
    # call histories first (small); if the plain layers then stop on a replay divergence (the library carried state from one calc
    # into the next) and a history has already shown a violation, the violation is the verdict, not the harness error
    hist = [ch for ch in chunks if ch[2] == 'HC']
    runtime.run_chunks(_work, hist, rep.acc)
    try:
        runtime.run_chunks(_work, [ch for ch in chunks if ch[2] != 'HC'], rep.acc)
    except runtime.HarnessError as e:
        if 'replay nondeterminism' in str(e) and any(k[0] == prop for k in rep.acc.viol):
            rep.coverage['aborted'] = 'plain layers stopped at a replay divergence after the call histories had found violations: ' + str(e)[-400:]
        else:
            raise
    c = rep.acc.counters
    if c['executions'] == 0:
        raise runtime.HarnessError('no executions')
    prem = {k[8:]: v for k, v in c.items() if k.startswith('premise:')}
    rep.coverage.update({
        'evaluations': c['executions'], 'distinct_nontrivial': c['nontrivial'],
        'rule': 'complete enumeration of the input layers (DESIGN 5.1) x environment choice trees (clock reads, lazy calendar days) '
                'up to the deviation bound; one evaluation = one calc under the virtual clock; non-trivial = executions (all inputs '
                'distinct by construction) in which at least one clause premise of the property fired',
        'layers': {k[11:]: v for k, v in c.items() if k.startswith('executions:')},
        'premises': prem, 'distinct_observed_schedules': len(rep.acc.outcomes),
        'choice_points': c['choice_points'], 'clock_deviation_bound': 2,
        'calendar_deviation_bound': 3 if tier == 'thorough' else 2,
        'exhaustive': True,
    })
    rep.assumptions += [
        'small scope: <=4 tasks, <=3 links, listed value alphabets (dyadic amounts compared exactly, decimal layer L7 with 1e-9 / 1 s tolerance)',
        'calendars whose day capacity depends on the time of day are excluded (DESIGN 5.1)',
        'inputs whose leaf-level dependency relation has a cycle are excluded from every property except C14',
        'the virtual clock replaces datetime in pjplan.schedule; a canary run checks the seam on every invocation',
    ]


# ----------------------------------------------------------------------------------------------
# C06: purity and determinism

def observe_input(w, objs):
    out = []
    for t in objs:
        out.append((t.id, id(t.parent) if t.parent is not None else None, tuple(id(c) for c in t.children),
                    tuple(id(p) for p in t.predecessors), tuple(id(p) for p in t.successors), id(t.wbs) if t.wbs is not None else None,
                    tuple(sorted((k, repr(v)) for k, v in t.to_dict().items()))))
    out.append(tuple(id(r) for r in w.roots))
    out.append(tuple(id(t) for t in w.tasks))
    out.append(tuple(sorted((k, repr(v)) for k, v in w.__dict__.items() if not k.startswith('_'))))
    return tuple(out)


def c06_one(sc, acc, clock_menu_=None, chooser=None, start_pos=0):
    """purity (a), faithful separate result (b), repeat determinism (c) for one scenario. Returns outcome key or None."""
    try:
        w, objs, ext = build(sc)
    except BuildRejected:
        acc.count('build_rejected')
        return None
    w.title = 'input-title'
    resources, _ = make_resources(sc)
    sched = make_scheduler(sc, resources)
    before = observe_input(w, objs)
    menu = None
    if clock_menu_ is not None:
        class _M(list):
            pass
        menu = _M(clock_menu_)
        menu.start_pos = start_pos
    ex = execute(sc, chooser=chooser, clock_menu=menu, prebuilt=(w, objs, ext), scheduler=sched)
    after = observe_input(w, objs)
    V, fired = _mk_V(acc, 'C06', sc)
    acc.count('executions')
    acc.count('executions:' + sc.layer)
    if after != before:
        diff = [i for i, (a, b) in enumerate(zip(before, after)) if a != b]
        V('input-modified', 'raised' if ex.status != 'ok' else 'external-link' if sc.ext else '-',
          f'calc changed the input WBS (entries {diff}; first: {before[diff[0]]} -> {after[diff[0]]})'[:600])
    if ex.status == 'timeout':
        V('calc-does-not-terminate', '-', 'calc was still running after the watchdog limit')
        return None
    if ex.status != 'ok':
        acc.count('not-scheduled:' + (type(ex.error).__name__ if ex.error is not None else ex.status))
        return None
    ob = SchedObs(ex)
    res = ex.result
    if res.schedule is w:
        V('result-is-input', '-', 'calc returned the input WBS object')
    in_ids = {id(t) for t in objs}
    if any(id(o.obj) in in_ids for o in ob.by_id.values()):
        V('result-shares-task-objects', '-', 'result contains task objects of the input')
    # same ids / hierarchy / order / links / custom attributes; every task dated
    exp_order = [t.id for t in w.tasks]
    if ob.order != exp_order:
        V('ids-or-order-differ', '-', f'result task order {ob.order}, input {exp_order}')
    else:
        for t in w.tasks:
            o = ob.by_id[t.id]
            if o.parent != (t.parent.id if t.parent is not None else None) or o.children != [c.id for c in t.children]:
                V('hierarchy-differs', '-', f'task {t.id}: parent/children {o.parent}/{o.children}')
            if sorted(o.preds, key=repr) != sorted([p.id for p in t.predecessors], key=repr) or \
                    sorted(o.succs, key=repr) != sorted([p.id for p in t.successors], key=repr):
                V('links-differ', 'external-link' if sc.ext else '-', f'task {t.id}: predecessors {o.preds} successors {o.succs}, input '
                  f'{[p.id for p in t.predecessors]} {[p.id for p in t.successors]}')
            builtin = ('name', 'resource', 'start', 'end', 'estimate', 'spent', 'milestone', 'min_start')
            pub_in = {k: v for k, v in vars(t).items() if not k.startswith('_') and k not in builtin}
            pub_out = {k: v for k, v in vars(o.obj).items() if not k.startswith('_') and k not in builtin}
            if pub_in != pub_out or o.obj.name != t.name:
                V('custom-attributes-differ', '-', f'task {t.id}: custom attributes {pub_out!r}, input {pub_in!r}')
            if o.start is None or o.end is None:
                V('task-without-dates', '-', f'task {t.id}: start {o.start} end {o.end}')
    if [r.id for r in res.schedule.roots] != [r.id for r in w.roots]:
        V('root-order-differs', '-', 'root order differs')
    key = outcome_key(ob)
    acc.outcome(key)
    competing = len({r[2] for r in ob.rows}) >= 2
    if competing:
        acc.count('premise:two-tasks-with-reservations')
        acc.count('nontrivial')
    return key, sched, (w, objs, ext)


def c06_plain(sc, acc):
    r = c06_one(sc, acc)
    if r is None:
        return
    key, sched, prebuilt = r
    V, _ = _mk_V(acc, 'C06', sc)
    # (c) same scheduler object again, then a fresh scheduler with equal arguments
    ex2 = execute(sc, prebuilt=prebuilt, scheduler=sched)
    acc.count('executions')
    if ex2.status != 'ok' or outcome_key(SchedObs(ex2)) != key:
        V('repeat-on-same-scheduler-differs', '-', 'second calc on the same scheduler object gave a different result')
    ex3 = execute(sc)
    acc.count('executions')
    if ex3.status != 'ok' or outcome_key(SchedObs(ex3)) != key:
        V('repeat-on-fresh-scheduler-differs', '-', 'calc on a fresh scheduler with equal inputs gave a different result')


def c06_histories(tier, sched_kind, balance, acc):
    """All sequences of <= 3 calc calls over 3 inputs (different resource names) on ONE scheduler object."""
    A = MON if sched_kind == 'fwd' else MON + 21 * DAY
    inputs = []
    for rn in ('A', 'B', None):
        attrs = {0: {'estimate': 12, 'resource': rn}, 1: {'estimate': 4, 'resource': rn}}
        inputs.append(Scenario(sched_kind, balance, A, LY.mk_tasks((None, None), attrs), [(0, 1)] if rn == 'B' else [],
                               cals={'A': 'sparse'}, layer='H'))
    fresh = []
    for sc in inputs:
        ex = execute(sc)
        fresh.append(outcome_key(SchedObs(ex)))
    for n in (1, 2, 3):
        for seq in itertools.product(range(3), repeat=n):
            resources, _ = make_resources(inputs[0])
            sch = make_scheduler(inputs[0], resources)
            for step, i in enumerate(seq):
                ex = execute(inputs[i], scheduler=sch)
                acc.count('executions')
                acc.count('executions:H')
                acc.count('nontrivial')
                acc.count('premise:history-step')
                k = outcome_key(SchedObs(ex)) if ex.status == 'ok' else None
                if k != fresh[i]:
                    V, _ = _mk_V(acc, 'C06', inputs[i], {'history': list(seq), 'step': step})
                    V('result-depends-on-call-history', '-', f'input {i} after history {seq[:step]} differs from a fresh scheduler')


def c06_edit_histories(sched_kind, balance, acc):
    """calc(w); edit w through the public API; calc(w) again on the SAME scheduler object: the second result is the one
    a fresh scheduler gives for the edited WBS."""
    A = MON if sched_kind == 'fwd' else MON + 21 * DAY
    for par, links in (((None, None), ((0, 1),)), ((None, 0, 0), ()), ((None, 0, None), ((2, 1),))):
        lv = [i for i in range(len(par)) if LY.is_leaf(par, i)]
        attrs = {i: {'estimate': 4 + 4 * k, 'resource': 'A'} for k, i in enumerate(lv)}
        sc = Scenario(sched_kind, balance, A, LY.mk_tasks(par, attrs), list(links), cals={'A': 'sparse'}, layer='HE')
        for edit in ('estimate', 'spent', 'resource', 'add-task', 'remove-task', 'unlink', 'min_start'):
            w, objs, ext = build(sc)
            resources, _ = make_resources(sc)
            sch = make_scheduler(sc, resources)
            ex1 = execute(sc, prebuilt=(w, objs, ext), scheduler=sch)
            from pjplan import Task
            leaf = objs[lv[-1]]
            if edit == 'estimate':
                leaf.estimate = 20
            elif edit == 'spent':
                leaf.spent = 3
            elif edit == 'resource':
                leaf.resource = 'B'
            elif edit == 'add-task':
                w.roots.append(Task(99, 'extra', resource='A', estimate=8))
            elif edit == 'remove-task':
                w.remove(leaf)
            elif edit == 'unlink':
                for t in objs:
                    t.predecessors = []
            elif edit == 'min_start' and sched_kind == 'fwd':
                leaf.min_start = A + 3 * DAY
            ex2 = execute(sc, prebuilt=(w, objs, ext), scheduler=sch)
            resources3, _ = make_resources(sc)
            ex3 = execute(sc, prebuilt=(w, objs, ext), scheduler=make_scheduler(sc, resources3))
            acc.count('executions', 3)
            acc.count('executions:HE', 3)
            acc.count('nontrivial')
            acc.count('premise:calc-edit-calc')
            k2 = outcome_key(SchedObs(ex2)) if ex2.status == 'ok' else ex2.status
            k3 = outcome_key(SchedObs(ex3)) if ex3.status == 'ok' else ex3.status
            if k2 != k3:
                V, _ = _mk_V(acc, 'C06', sc, {'edit': edit})
                V('result-after-edit-depends-on-earlier-call', edit, f'after {edit}: calc on the scheduler that had already scheduled '
                  f'the WBS differs from a fresh scheduler')


def c06_clock(sc, acc):
    """(d) forward: all clock schedules with values <= project start give the same schedule."""
    S = MON + LY.H9
    variants = [sc.tasks]
    if all(a.get('estimate', 4) == 4 for _, _, a in sc.tasks):
        # little work: the tasks end early in the day, before the time of day of the project start and of the clock
        variants.append([(i, p_, dict(a, estimate=1) if 'estimate' in a else a) for i, p_, a in sc.tasks])
    for tasks in variants:
        sc2 = Scenario('fwd', sc.balance, S, tasks, sc.links, {'A': 'none'}, sc.dflt, None, layer='L4clock')
        menu = [S - 30 * DAY, S - DAY, seams.midnight(S), S - timedelta(hours=1), S]
        seen = {}
        for start_pos in range(len(menu)):
            def run(ch):
                return c06_one(sc2, acc, clock_menu_=menu, chooser=ch, start_pos=start_pos)
            for choices, trace, r in choice.explore(run, 2):
                acc.count('choice_points', len(trace))
                if r is None:
                    continue
                acc.count('premise:clock-at-or-before-start')
                seen.setdefault(r[0], (start_pos, choices))
        if len(seen) > 1:
            V, _ = _mk_V(acc, 'C06', sc2, {'clock_menu': [m.isoformat() for m in menu],
                                           'distinct_results': [list(map(str, v)) for v in seen.values()][:3]})
            V('forward-result-depends-on-clock-before-start', '-', f'{len(seen)} different schedules over clock histories at or before the project start')


def _c06_layers(tier):
    return [('L1', lambda: LY.L1(tier)), ('L1x', lambda: LY.L1x(tier)), ('L1y', lambda: LY.L1y(tier)), ('L2', lambda: LY.L2(tier)), ('L3', lambda: LY.L3(tier)),
            ('L6', lambda: LY.L6(tier)), ('L4clock', lambda: LY.L4_inputs(tier, ('fwd',))), ('L2ms', lambda: LY.L2ms(tier)),
            ('L2n', lambda: LY.L2n(tier)), ('L1p', lambda: LY.L1p(tier)), ('L6r', lambda: LY.L6r(tier)), ('LS', lambda: LY.LS(tier)), ('L1neg', lambda: LY.L1neg(tier)), ('L1i', lambda: LY.L1i(tier)), ('LX', lambda: LY.LX(tier)), ('H', None)]


def _work_c06(chunk):
    prop, tier, lname, i, n = chunk
    acc = runtime.Acc()
    if lname == 'H':
        combos = [(s, b) for s in ('fwd', 'bwd') for b in (True, False)]
        for s, b in combos[i::n]:
            c06_histories(tier, s, b, acc)
            c06_edit_histories(s, b, acc)
        if i == 0:
            calendar_edit_histories('C06', acc)
            default_resource_histories('C06', acc)
        if i == 1:
            reuse_histories('C06', acc)
        return acc
    gen = dict(_c06_layers(tier))[lname]()
    for sc in itertools.islice(gen, i, None, n):
        if lname == 'L4clock':
            c06_clock(sc, acc)
        else:
            c06_plain(sc, acc)
        if len(acc.samples) < 1:
            acc.sample({'layer': lname, 'scenario': sc.to_json()})
    return acc


def run_c06(rep):
    seams.clock_canary()
    nw = runtime.n_workers()
    chunks = []
    for lname, _ in _c06_layers(rep.tier):
        k = nw * 2 if lname != 'H' else 4
        chunks += [('C06', rep.tier, lname, i, k) for i in range(k)]
    runtime.run_chunks(_work_c06, chunks, rep.acc)
    c = rep.acc.counters
    rep.coverage.update({
        'evaluations': c['executions'], 'distinct_nontrivial': c['nontrivial'],
        'rule': 'every input of layers L1-L3, L6 scheduled three times (same scheduler twice, fresh scheduler) with the input WBS observed '
                'before/after; all call histories of length <=3 over three inputs on one scheduler object; all clock-read histories '
                '(<=2 advances over 5 instants at or before the project start) per L4 input; non-trivial = executions in which >=2 tasks '
                'hold reservations, and every history step',
        'layers': {k[11:]: v for k, v in c.items() if k.startswith('executions:')},
        'premises': {k[8:]: v for k, v in c.items() if k.startswith('premise:')},
        'distinct_observed_schedules': len(rep.acc.outcomes), 'choice_points': c['choice_points'], 'exhaustive': True,
    })
    rep.assumptions += ['tasks of other WBSs linked to the input are not part of "the input WBS" (clone links them by design, C10)',
                        'clock independence is claimed for inputs without user-fixed dates']
