"""Engine B oracles: one function per property, clause by clause (DESIGN section 7).

Every function takes (sc, ex, ob, V) where V(clause, trigger, message) records a violation of the
property the function belongs to, and P(name) counts a premise (vacuity guard)."""
from datetime import datetime, timedelta

from .. import seams
from . import layers

DAY = timedelta(days=1)
MS = timedelta(milliseconds=1)
SEC = timedelta(seconds=1)


def day(d):
    return datetime(d.year, d.month, d.day)


class Ctx:
    """Input-side facts of a scenario, computed by the harness (never read from pjplan results)."""

    def __init__(self, sc):
        self.sc = sc
        self.par = [p for (_, p, _) in sc.tasks]
        self.ids = [i for (i, _, _) in sc.tasks]
        self.attrs = {i: a for (i, _, a) in sc.tasks}
        self.idx = {tid: k for k, tid in enumerate(self.ids)}
        self.n = len(self.ids)
        self.decimal = sc.layer.startswith('L7')
        self.ttol = SEC if self.decimal else MS

    def is_leaf(self, tid):
        return self.idx[tid] not in self.par

    def fixed_start(self, tid):
        return self.attrs[tid].get('start') is not None

    def fixed_end(self, tid):
        return self.attrs[tid].get('end') is not None

    def milestone(self, tid):
        return bool(self.attrs[tid].get('milestone'))

    def work(self, tid):
        a = self.attrs[tid]
        est = a.get('estimate')
        if est is None:
            est = self.sc.dflt
        return max(est - (a.get('spent') or 0), 0)

    def aeq(self, x, y):
        if self.decimal:
            return abs(x - y) <= 1e-9 * max(1.0, abs(x), abs(y))
        return x == y

    def ale(self, x, y):
        if self.decimal:
            return x <= y + 1e-9 * max(1.0, abs(x), abs(y))
        return x <= y

    def teq(self, a, b):
        return abs(a - b) <= self.ttol

    def leafcycle(self):
        return layers.leaf_cycle(self.par, self.sc.links)


def declared_links(sc):
    """Dependencies as DECLARED ON THE INPUT (the result may have lost or gained links; that is C06's business, and the
    scheduling properties speak about the declared prerequisites): pred map and succ map by task id; entries are
    ('m', id) for members and ('e', id, start, end) for tasks of another WBS."""
    ids = [t[0] for t in sc.tasks]
    preds = {i: [] for i in ids}
    succs = {i: [] for i in ids}
    for p, s_ in sc.links:
        preds[ids[s_]].append(('m', ids[p]))
        succs[ids[p]].append(('m', ids[s_]))
    for a, b in sc.ext_links:
        ea = sc.ext[a[1]] if a[0] == 'e' else None
        eb = sc.ext[b[1]] if b[0] == 'e' else None
        if a[0] == 'e' and b[0] == 'x':
            preds[ids[b[1]]].append(('e', ea[0], ea[1].get('start'), ea[1].get('end')))
        if a[0] == 'x' and b[0] == 'e':
            succs[ids[a[1]]].append(('e', eb[0], eb[1].get('start'), eb[1].get('end')))
    return preds, succs


def install_declared(sc, ob):
    """Replace the result-reported link tables of the observation by the declared ones (ends/starts still read from the result)."""
    preds, succs = declared_links(sc)
    ob.pred_ends = {}
    ob.succ_starts = {}
    for tid in ob.order:
        pe, ss = [], []
        for e in preds.get(tid, []):
            if e[0] == 'm' and e[1] in ob.by_id:
                pe.append((e[1], ob.by_id[e[1]].end, True))
            elif e[0] == 'e':
                pe.append((e[1], e[3], False))
        for e in succs.get(tid, []):
            if e[0] == 'm' and e[1] in ob.by_id:
                ss.append((e[1], ob.by_id[e[1]].start, True))
            elif e[0] == 'e':
                ss.append((e[1], e[2], False))
        ob.pred_ends[tid] = pe
        ob.succ_starts[tid] = ss


def prereq_ends(ob, tid):
    """(id, end, is_member) of every prerequisite leaf of tid: predecessors declared on tid and on
    every ancestor, each expanded to its leaf descendants (external predecessors count as leaves)."""
    out = []
    for a in [tid] + ob.ancestors(tid):
        for (pid, pend, member) in ob.pred_ends[a]:
            if member:
                for l in ob.leaves(pid):
                    out.append((l, ob.by_id[l].end, True, a != tid))
            else:
                out.append((pid, pend, False, a != tid))
    return out


def reached_via_link_first(ob, ctx, tid):
    """Trigger predicate for the known traversal-order defect: some task outside tid's ancestor chain
    declares tid (or a descendant-of-ancestor path to it) as predecessor/successor, so the recursive pass can
    reach tid through a dependency link before it reaches tid's ancestors."""
    o = ob.by_id[tid]
    chain = [tid] + ob.ancestors(tid)
    for a in chain:
        if ob.by_id[a].succs or ob.by_id[a].preds:
            # a itself takes part in a link; inherited constraints of a's ancestors may be skipped
            if a != chain[-1] or True:
                return True
    return False


# ----------------------------------------------------------------------------------------------
# C07

def c07(sc, ctx, ex, ob, V, P):
    for tid in ob.order:
        o = ob.by_id[tid]
        if o.start is None or o.end is None:
            # a LEAF without dates is C06's business; a summary of a returned schedule without a start or an end carries no roll-up
            if o.children and not ctx.milestone(tid):
                V('summary-without-dates', '-', f'summary {tid}: start {o.start}, end {o.end} in a returned schedule')
            continue
        leaf = not o.children
        if leaf and ctx.fixed_end(tid) and not ctx.fixed_start(tid):
            # domain note: a completed task without a recorded start. C02 demands that a computed start is not
            # before the project start / today, C07 that it is not after the (past) end: the statements conflict,
            # so this corner is outside the explored domain of clause (a).
            P('excluded-fixed-end-without-start')
        elif (not leaf) and any(ctx.fixed_end(l) and not ctx.fixed_start(l) for l in ob.leaves(tid)):
            P('excluded-fixed-end-without-start')
        elif o.start > o.end:
            trig = ('summary' if not leaf else 'fixed-start' if ctx.fixed_start(tid) else 'computed')
            V('start-after-end', trig, f'task {tid}: start {o.start} > end {o.end}')
        if o.children and not ctx.milestone(tid):
            P('summary')
            ch = [ob.by_id[c] for c in o.children]
            if any(c.start is None or c.end is None for c in ch):
                continue
            if len(ob.ancestors(tid)) >= 1:
                P('nested-summary')
            ms, me = min(c.start for c in ch), max(c.end for c in ch)
            if o.start != ms:
                V('summary-start', 'child-starts-before-bound' if o.start > ms else 'other',
                  f'summary {tid}: start {o.start} != earliest child start {ms}')
            if o.end != me:
                V('summary-end', 'child-ends-after-bound' if o.end < me else 'other',
                  f'summary {tid}: end {o.end} != latest child end {me}')
            if any(c.estimate is None for c in ch) or not ctx.aeq(o.estimate if o.estimate is not None else -1,
                                                                  sum(c.estimate for c in ch)):
                V('summary-estimate', '-', f'summary {tid}: estimate {o.estimate} != sum of children {[c.estimate for c in ch]}')
            if any(c.spent is None for c in ch) or not ctx.aeq(o.spent if o.spent is not None else -1,
                                                               sum(c.spent for c in ch)):
                V('summary-spent', '-', f'summary {tid}: spent {o.spent} != sum of children {[c.spent for c in ch]}')
    starts = [ob.by_id[t].start for t in ob.order if ob.by_id[t].start is not None]
    ends = [ob.by_id[t].end for t in ob.order if ob.by_id[t].end is not None]
    if starts and len(starts) == len(ob.order):
        ws, we = seams.plain(ob.wbs.start), seams.plain(ob.wbs.end)
        if ws != min(starts):
            V('wbs-start', '-', f'WBS.start {ws} != earliest task start {min(starts)}')
        if we != max(ends):
            V('wbs-end', '-', f'WBS.end {we} != latest task end {max(ends)}')


# ----------------------------------------------------------------------------------------------
# C03

def c03(sc, ctx, ex, ob, V, P):
    names = {}
    for r in ob.resources:
        names.setdefault(r.name, []).append(r)
    used = {ob.by_id[t].resource for t in ob.order}
    for nm in used:
        if len(names.get(nm, [])) != 1:
            V('resource-missing', '-', f'resource name {nm!r} used by a task appears {len(names.get(nm, []))} times in Schedule.resources')
    supplied = set(k for k, v in sc.cals.items() if v not in ('none', None))
    # a resource the caller supplied is the resource the plan is made against: what the result holds under that name offers what
    # the supplied calendar offers (the same object today; a copy or wrapper would do as well)
    for r0 in (getattr(ex, 'resources_in', None) or []):
        nm = getattr(r0, 'name', None)
        if nm in used and len(names.get(nm, [])) == 1 and names[nm][0] is not r0:
            base = day(sc.anchor) - 10 * DAY
            for k in range(24):
                d = base + k * DAY
                try:
                    a, b = names[nm][0].get_available_units(d), r0.get_available_units(d)
                except Exception:  # noqa
                    break
                if a != b:
                    V('supplied-resource-replaced', '-', f'resource {nm!r} was supplied with {b} units on {d:%a %Y-%m-%d}; the resource of '
                      f'that name in the result offers {a}')
                    break
    for nm in used:
        if nm not in supplied and len(names.get(nm, [])) == 1:
            P('default-resource')
            r = names[nm][0]
            base = day(sc.anchor) - 7 * DAY
            for k in range(21):
                d = base + k * DAY
                exp = 8 if d.weekday() < 5 else 0
                got = r.get_available_units(d)
                if got != exp:
                    V('default-resource-capacity', '-', f'default resource {nm!r} offers {got} on {d:%a %Y-%m-%d}, expected {exp}')
                    break
    per = {}
    shared = False
    for i, (res, d, tid, units, tobj) in enumerate(ob.rows):
        if not units > 0:
            V('row-not-positive', '-', f'row {i}: task {tid} units {units}')
        if d != day(d):
            V('row-date-not-midnight', '-', f'row {i}: date {d}')
        want = names.get(ob.by_id[tid].resource, []) if tid in ob.by_id else []
        if not (len(want) == 1 and want[0] is res):
            V('row-wrong-resource', '-', f'row {i}: task {tid} (resource {ob.by_id[tid].resource!r}) booked on {getattr(res, "name", res)!r}')
        c = ob.cap(res, d)
        if not c > 0:
            V('row-on-day-without-capacity', 'decimal-residue' if ctx.decimal else '-',
              f'row {i}: task {tid} books {units} on {d:%a %Y-%m-%d} where {res.name!r} offers {c}')
        if c != int(c):
            shared = True
        k = (id(res), d)
        ent = per.setdefault(k, [res, d, 0.0, {}])
        ent[2] += units
        ent[3][tid] = ent[3].get(tid, 0.0) + units
    for (res, d, tot, bytask) in per.values():
        c = ob.cap(res, d)
        if len(bytask) >= 2:
            shared = True
        if sc.balance:
            if not ctx.ale(tot, c):
                V('over-allocation', 'balanced', f'{res.name!r} on {d:%Y-%m-%d}: booked {tot} > capacity {c} ({bytask})')
        else:
            for tid, u in bytask.items():
                if not ctx.ale(u, c):
                    V('over-allocation', 'per-task', f'{res.name!r} on {d:%Y-%m-%d}: task {tid} booked {u} > capacity {c}')
    if shared:
        P('shared-or-fractional-day')
    # report views agree with rows
    rep = ob.report
    for (res, d, tot, bytask) in per.values():
        got = rep.reserved(res, d)
        if not ctx.aeq(got, tot):
            V('reserved-total-disagrees', '-', f'reserved({res.name!r}, {d:%Y-%m-%d}) = {got}, rows sum to {tot}')
    if ob.rows:
        res0, d0 = ob.rows[0][0], ob.rows[0][1]
        if rep.reserved(res0, d0 - 400 * DAY) != 0:
            V('reserved-total-disagrees', 'empty-day', 'reserved() on a day without rows is not 0')
        allrows = rep.rows()
        filters = {
            'by-task': lambda r, t=ob.rows[0][4]: r.task is t,
            'by-resource': lambda r, x=res0: r.resource is x,
            'by-date': lambda r, x=ob.rows[-1][1]: r.date == x,
            'false': lambda r: False,
        }
        for name, f in filters.items():
            got = rep.rows(f)
            exp = [r for r in allrows if f(r)]
            if got != exp:
                V('filtered-rows-disagree', name, f'rows({name}) returned {len(got)} rows, filtering rows() gives {len(exp)}')
        again = rep.rows()
        if again != allrows or any(a is b for a, b in zip(again, allrows)):
            V('rows-not-copies', '-', 'rows() must return equal copies of the ledger on every call')


# ----------------------------------------------------------------------------------------------
# C04

def c04(sc, ctx, ex, ob, V, P):
    fwd = sc.sched == 'fwd'
    clock0 = ex.now0
    for tid in ob.order:
        o = ob.by_id[tid]
        rows = [(i, r) for i, r in enumerate(ob.rows) if r[2] == tid]
        leaf = not o.children
        if (not leaf) or ctx.milestone(tid) or ctx.fixed_end(tid):
            if rows:
                kind = 'summary' if not leaf else 'milestone' if ctx.milestone(tid) else 'completed'
                V('rows-on-' + kind, '-', f'{kind} task {tid} has {len(rows)} usage rows')
            if leaf and fwd and not ctx.milestone(tid):
                a = ctx.attrs[tid]
                if a.get('start') is not None and o.start != a['start']:
                    V('fixed-start-changed', '-', f'task {tid}: user start {a["start"]} returned as {o.start}')
                if a.get('end') is not None and o.end != a['end']:
                    V('fixed-end-changed', '-', f'task {tid}: user end {a["end"]} returned as {o.end}')
            continue
        w = ctx.work(tid)
        tot = sum(r[3] for _, r in rows)
        P('leaf')
        if not ctx.aeq(tot, w):
            V('reserved-not-remaining-work', 'spent' if ctx.attrs[tid].get('spent') else 'default-estimate' if ctx.attrs[tid].get('estimate') is None else '-',
              f'task {tid}: reserved {tot}, remaining work {w}')
        dates = [r[1] for _, r in rows]
        if len(set(dates)) != len(dates):
            V('two-rows-one-day', '-', f'task {tid}: several rows on one day {dates}')
        if len(dates) >= 2:
            P('multi-day-task')
        if o.start is None or o.end is None:
            continue
        for d in dates:
            if not (day(o.start - (ctx.ttol if ctx.decimal else timedelta(0))) <= d and d < o.end + (ctx.ttol if ctx.decimal else timedelta(0))):
                V('row-outside-task-dates', '-', f'task {tid}: row on {d:%Y-%m-%d} outside [{o.start}, {o.end})')
            if fwd and clock0 is not None and d < day(clock0):
                V('row-before-today', '-', f'task {tid}: row on {d:%Y-%m-%d} before the current day {clock0}')
        if fwd:
            a = ctx.attrs[tid]
            if a.get('start') is not None and o.start != a['start']:
                V('fixed-start-changed', '-', f'task {tid}: user start {a["start"]} returned as {o.start}')
            if dates and not ctx.fixed_start(tid):
                if day(o.start) != min(dates):
                    V('start-not-on-first-reserved-day', '-', f'task {tid}: start {o.start}, first reserved day {min(dates):%Y-%m-%d}')
            if dates:
                last = max(dates)
                if not (last <= o.end <= last + DAY + (ctx.ttol if ctx.decimal else timedelta(0))):
                    V('end-not-within-last-reserved-day', '-', f'task {tid}: end {o.end}, last reserved day {last:%Y-%m-%d}')
        else:
            if dates:
                first = min(dates)
                if not (first - (ctx.ttol if ctx.decimal else timedelta(0)) <= o.start <= first + DAY):
                    V('start-not-within-first-reserved-day', '-', f'task {tid}: start {o.start}, first reserved day {first:%Y-%m-%d}')
        if w == 0 and rows:
            V('rows-on-zero-work', '-', f'task {tid} has no remaining work but {len(rows)} rows')


# ----------------------------------------------------------------------------------------------
# C02 (forward only)

def c02(sc, ctx, ex, ob, V, P):
    if sc.sched != 'fwd':
        return
    clock0 = ex.now0
    for tid in ob.order:
        o = ob.by_id[tid]
        if o.children or o.start is None:
            continue
        pre = prereq_ends(ob, tid)
        if ctx.milestone(tid):
            P('milestone')
            if o.start != o.end:
                V('milestone-duration', '-', f'milestone {tid}: start {o.start} != end {o.end}')
            ends = [e for (_, e, _, _) in pre]
            if any(e is None for e in ends):
                continue
            if ends and min(ends) < sc.anchor:
                continue  # statement does not say whether project start or the latest end wins
            exp = max(ends) if ends else sc.anchor
            if o.start != exp:
                inh = any(i for (_, _, _, i) in pre)
                V('milestone-placement', 'inherited-prerequisite' if inh else 'own', f'milestone {tid} at {o.start}, latest prerequisite end / project start is {exp}')
            continue
        if ctx.fixed_start(tid):
            continue
        P('leaf')
        rows = ob.rows_of(tid)
        sd = day(o.start)
        for (pid, pend, member, inherited) in pre:
            if pend is None:
                continue
            if inherited:
                P('inherited-prerequisite')
            bad = sd < day(pend) or any(r[1] < day(pend) for r in rows)
            if bad:
                trig = ('inherited' if inherited else 'own') + ('' if member else '-external')
                if inherited and (ob.by_id[tid].succs or ob.by_id[tid].preds or any(
                        ob.by_id[a].succs or ob.by_id[a].preds for a in ob.ancestors(tid)[:-1])):
                    trig += '+reached-via-link'
                V('starts-before-prerequisite-end', trig,
                  f'task {tid} starts {o.start} (rows {[r[1].strftime("%m-%d") for r in rows]}) before prerequisite {pid} ends {pend}')
        bounds = [('project-start', sc.anchor)]
        ms = ctx.attrs[tid].get('min_start')
        if ms is not None:
            bounds.append(('min_start', ms))
        if clock0 is not None:
            bounds.append(('clock', clock0))
        for name, b in bounds:
            if sd < day(b) or any(r[1] < day(b) for r in rows):
                V('starts-before-' + name, '-', f'task {tid} starts {o.start} (rows {[r[1].strftime("%m-%d") for r in rows]}) before {name} {b}')


# ----------------------------------------------------------------------------------------------
# C09 (backward only)

def due_of(sc, ob, tid):
    cands = [sc.anchor]
    for a in [tid] + ob.ancestors(tid):
        for (sid, sstart, member) in ob.succ_starts[a]:
            if sstart is not None:
                cands.append(sstart)
    return min(cands)


def c09(sc, ctx, ex, ob, V, P):
    if sc.sched != 'bwd':
        return
    for tid in ob.order:
        o = ob.by_id[tid]
        if o.end is None or o.start is None:
            continue
        if o.end > sc.anchor:
            V('ends-after-deadline', '-', f'task {tid} ends {o.end} after the project end {sc.anchor}')
        for a in [tid] + ob.ancestors(tid):
            for (pid, pend, member) in ob.pred_ends[a]:
                if pend is None:
                    continue
                if not member:
                    # a dated task of another project: a user-fixed date, which the property's quantifier leaves out - a backward
                    # pass places tasks as late as the deadline allows and cannot move them later still to wait for it
                    P('outside-predecessor-not-judged')
                    continue
                if a != tid:
                    P('inherited-dependency')
                if pend > o.start:
                    trig = 'inherited' if a != tid else 'own'
                    if a != tid:
                        trig += '+reached-via-link' if (ob.by_id[tid].succs or ob.by_id[tid].preds or any(
                            ob.by_id[x].succs or ob.by_id[x].preds for x in ob.ancestors(tid))) else ''
                    V('predecessor-ends-after-successor-start', trig,
                      f'predecessor {pid} (declared on {a}) ends {pend} after task {tid} starts {o.start}')
    if not sc.balance:
        return
    for tid in ob.order:
        o = ob.by_id[tid]
        if o.children or ctx.milestone(tid) or o.end is None:
            continue
        res = ob.res_by_name(o.resource)
        if len(res) != 1:
            continue
        res = res[0]
        P('leaf')
        due = due_of(sc, ob, tid)
        d = day(o.end) + DAY
        while d < day(due):
            c = ob.cap(res, d)
            if not ctx.aeq(ob.booked(res, d), c):
                V('idle-day-before-due', '-', f'task {tid} ends {o.end}, due {due}: {d:%a %Y-%m-%d} has {ob.booked(res, d)} of {c} booked')
                break
            d += DAY
        rows = [(i, r) for i, r in enumerate(ob.rows) if r[2] == tid]
        if not rows:
            continue
        dates = sorted(r[1] for _, r in rows)
        d = dates[0] + DAY
        while d < dates[-1]:
            c = ob.cap(res, d)
            if not ctx.aeq(ob.booked(res, d), c):
                V('idle-day-inside-task', '-', f'task {tid}: {d:%Y-%m-%d} between its work days has {ob.booked(res, d)} of {c} booked')
                break
            d += DAY
        # (d) start encoding
        fi, fr = min(rows, key=lambda x: x[1][1])
        c = ob.cap(res, fr[1])
        if c > 0:
            exp = fr[1] + DAY - timedelta(hours=24 * (ob.booked_before(fi) + fr[3]) / c)
            if not ctx.teq(o.start, exp):
                V('start-encoding', '-', f'task {tid}: start {o.start}, expected {exp} (first work day {fr[1]:%Y-%m-%d}, capacity {c})')
        # (e) end encoding. "Booked before the task was placed" is read off the ledger per day only (rows of one day
        # keep their reservation order; the order of rows across days is not promised by any property):
        # if the task itself reserves on the day of its end, the rows of that day preceding its own row;
        # otherwise the task was placed against a partially booked day it does not use, and the amount booked before
        # it is the total of some of the other tasks' rows on that day (all of them unless a later, longer task
        # filled the rest of the day afterwards).
        e = day(o.end - timedelta(microseconds=1))
        c = ob.cap(res, e)
        if c > 0:
            own = [i for i, r in rows if r[1] == e]
            if own:
                cands = [ob.booked_before(own[0])]
            else:
                others = {}
                for x in ob.rows:
                    if x[0] is res and x[1] == e:
                        others[x[2]] = others.get(x[2], 0) + x[3]
                vals = list(others.values())
                cands = sorted({sum(v for k, v in enumerate(vals) if m >> k & 1) for m in range(1 << len(vals))}, reverse=True)
            if not any(ctx.teq(o.end, e + DAY - timedelta(hours=24 * B / c)) for B in cands):
                V('end-encoding', '-', f'task {tid}: end {o.end}, not midnight after {e:%Y-%m-%d} minus 24h x B/{c} for any admissible '
                  f'amount booked before it (B in {cands})')
            if cands[0] > 0:
                P('end-on-partially-booked-day')


# ----------------------------------------------------------------------------------------------
# C08 (forward only)

def release_of(sc, ctx, ex, ob, tid):
    cands = [sc.anchor, ex.now0]
    ms = ctx.attrs[tid].get('min_start')
    if ms is not None:
        cands.append(ms)
    for (_, e, _, _) in prereq_ends(ob, tid):
        if e is not None:
            cands.append(e)
    return max(cands)


def c08(sc, ctx, ex, ob, V, P):
    if sc.sched != 'fwd':
        return
    clock_ok = all(v <= sc.anchor for v in ex.clock_values + [ex.now0])
    if sc.balance:
        for tid in ob.order:
            o = ob.by_id[tid]
            if o.children or ctx.milestone(tid) or ctx.fixed_start(tid) or ctx.fixed_end(tid) or o.start is None:
                continue
            res = ob.res_by_name(o.resource)
            if len(res) != 1:
                continue
            res = res[0]
            P('leaf')
            rows = [(i, r) for i, r in enumerate(ob.rows) if r[2] == tid]
            rel = release_of(sc, ctx, ex, ob, tid)
            lastwork = max(r[1] for _, r in rows) if rows else day(o.start)
            d = day(rel)
            if d < lastwork:
                P('release-day-before-last-work-day')
            while d < lastwork:
                c = ob.cap(res, d)
                if not ctx.aeq(ob.booked(res, d), c):
                    V('idle-day-before-last-work-day', 'decimal-residue' if ctx.decimal else '-',
                      f'task {tid} released {rel}, last work day {lastwork:%Y-%m-%d}: {d:%a %Y-%m-%d} has {ob.booked(res, d)} of {c} booked')
                    break
                d += DAY
            if clock_ok and rows:
                fi, fr = min(rows, key=lambda x: x[1][1])
                li, lr = max(rows, key=lambda x: x[1][1])
                c = ob.cap(res, fr[1])
                if c > 0:
                    bb = ob.booked_before(fi)
                    exp = fr[1] + timedelta(hours=24 * bb / c)
                    if bb > 0:
                        P('starts-on-partially-booked-day')
                    if not ctx.teq(o.start, exp):
                        V('start-encoding', '-', f'task {tid}: start {o.start}, expected {exp}')
                c = ob.cap(res, lr[1])
                if c > 0:
                    exp = lr[1] + timedelta(hours=24 * (ob.booked_before(li) + lr[3]) / c)
                    if not ctx.teq(o.end, exp):
                        V('end-encoding', '-', f'task {tid}: end {o.end}, expected {exp}')
        # (c) WBS order among leaves that take part in no dependency
        free = []
        for tid in ob.order:
            o = ob.by_id[tid]
            if o.children:
                continue
            if any(ob.by_id[a].preds or ob.by_id[a].succs for a in [tid] + ob.ancestors(tid)):
                continue
            free.append(tid)
        # "handed out in WBS order" is read off dates and days, never off the order of the report rows (no property promises one):
        # an independent leaf i that stands before j in the WBS and shares its resource is served first, i.e. j holds no reservation
        # on a day, from i's release day on, after which i still has work to do; and when both begin on the same day, i begins first
        info = {}
        for t in free:
            o = ob.by_id[t]
            res = ob.res_by_name(o.resource)
            if len(res) != 1 or o.start is None or ctx.milestone(t):
                continue
            days = sorted({r[1] for r in ob.rows if r[2] == t and r[0] is res[0] and r[3] > 0})
            rel = day(o.start) if ctx.fixed_start(t) else day(release_of(sc, ctx, ex, ob, t))
            info[t] = (res[0], days, rel, o)
        served = [t for t in free if t in info and info[t][1]]
        if len(served) >= 2:
            P('two-independent-leaves')
        for a_ in range(len(served)):
            for b_ in range(a_ + 1, len(served)):
                ti, tj = served[a_], served[b_]
                ri, di, reli, oi = info[ti]
                rj, dj, relj, oj = info[tj]
                if ri is not rj or ctx.fixed_end(ti) or ctx.fixed_end(tj):
                    continue
                bad = [d for d in dj if d >= reli and di[-1] > d]
                if bad:
                    V('capacity-not-in-wbs-order', '-', f'independent leaves {ti} and {tj} (WBS order) share a resource: {tj} holds capacity on '
                      f'{bad[0]:%Y-%m-%d} although {ti}, released {reli:%Y-%m-%d}, still has work after that day')
                elif clock_ok and di[0] == dj[0] and not ctx.fixed_start(ti) and not ctx.fixed_start(tj) and oi.start > oj.start + ctx.ttol:
                    V('capacity-not-in-wbs-order', 'same-day', f'independent leaves {ti} and {tj} (WBS order) both begin on {di[0]:%Y-%m-%d}: '
                      f'{ti} starts {oi.start}, after {tj} ({oj.start})')


# ----------------------------------------------------------------------------------------------
# C14 outcome typing

def c14_outcome(sc, ex, V, P, expected=None):
    if ex.status == 'timeout':
        V('does-not-terminate', sc.sched, 'calc was still running after the watchdog limit (its inputs are bounded: 100 000-day horizons, <= 40 tasks)')
        return
    if ex.status == 'budget':
        V('lookup-budget-exceeded', sc.sched, f'calc looked at more than {ex.lookups - 1} calendar days (3x the documented horizons)')
        return
    if ex.status == 'exc':
        e = ex.error
        P('raised')
        if isinstance(e, RecursionError):
            V('crash-RecursionError', (expected or '-') + '/' + sc.sched, 'calc ended in RecursionError')
        elif not isinstance(e, RuntimeError):
            V('crash-' + type(e).__name__, (expected or '-') + '/' + sc.sched, f'calc raised {type(e).__name__}: {str(e)[:100]}')
        else:
            P('raised-RuntimeError')
            if expected:
                P('diagnosed:' + expected)
    else:
        if expected:
            V('unschedulable-input-scheduled', expected + '/' + sc.sched, f'calc returned a schedule for an input of class {expected}')
