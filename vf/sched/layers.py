"""Engine B input layers (DESIGN 5.1): finite products, enumerated completely."""
import itertools
from datetime import datetime, timedelta

from .. import seams
from .scenario import Scenario, MON, DAY, CAL_MENU, NEVER_MENU

H9 = timedelta(hours=9)


def forests(n):
    """All ordered forests with n nodes as preorder parent arrays."""
    out = []

    def rec(par, path):
        i = len(par)
        if i == n:
            out.append(tuple(par))
            return
        # new node may hang under any node of the current rightmost path, or be a new root
        for d in range(len(path), -1, -1):
            p = path[d - 1] if d > 0 else None
            rec(par + [p], path[:d] + [i])

    rec([], [])
    return out


def ancestors(par, i):
    out = []
    p = par[i]
    while p is not None:
        out.append(p)
        p = par[p]
    return out


def leaves_of(par, i):
    n = len(par)
    ch = [j for j in range(n) if par[j] == i]
    if not ch:
        return [i]
    out = []
    for c in ch:
        out.extend(leaves_of(par, c))
    return out


def is_leaf(par, i):
    return i not in par


def link_candidates(par):
    n = len(par)
    c = []
    for p in range(n):
        for s in range(n):
            if p == s or p in ancestors(par, s) or s in ancestors(par, p):
                continue
            c.append((p, s))
    return c


def link_sets(par, max_links):
    cand = link_candidates(par)
    out = [()]
    for k in range(1, max_links + 1):
        for comb in itertools.combinations(cand, k):
            # skip direct 2-cycles early (the library rejects them at build time anyway)
            if any((s, p) in comb for p, s in comb):
                continue
            out.append(comb)
    return out


def leaf_cycle(par, links):
    """Harness's own test: does the leaf-expanded dependency relation (dependencies declared on a
    task bind all its leaves, and are inherited by all leaves below the successor) contain a cycle?"""
    n = len(par)
    g = {i: set() for i in range(n) if is_leaf(par, i)}
    for p, s in links:
        for ls in leaves_of(par, s):
            for lp in leaves_of(par, p):
                g[ls].add(lp)
    color = {}

    def dfs(u):
        color[u] = 1
        for v in g[u]:
            if color.get(v) == 1:
                return True
            if v not in color and dfs(v):
                return True
        color[u] = 2
        return False

    return any(u not in color and dfs(u) for u in g)


def direct_cycle(n, links):
    g = {i: set() for i in range(n)}
    for p, s in links:
        g[s].add(p)
    color = {}

    def dfs(u):
        color[u] = 1
        for v in g[u]:
            if color.get(v) == 1:
                return True
            if v not in color and dfs(v):
                return True
        color[u] = 2
        return False

    return any(u not in color and dfs(u) for u in g)


def structures(nmax, max_links, max_links_small=None):
    """(parents, links) for all forests with <= nmax nodes and all link sets (direct cycles excluded)."""
    out = []
    for n in range(1, nmax + 1):
        ml = max_links if (max_links_small is None or n > 3) else max_links_small
        for par in forests(n):
            for links in link_sets(par, ml):
                if direct_cycle(n, links):
                    continue
                out.append((par, links))
    return out


def mk_tasks(par, attrs_by_index):
    return [(i + 1, par[i], dict(attrs_by_index.get(i, {}))) for i in range(len(par))]


def L1(tier, scheds=('fwd', 'bwd'), balances=(True, False), anchors=None, include_cycles=False, nmax=None):
    """Structure layer."""
    nmax = nmax or (3 if tier == 'quick' else 4)
    anchors = anchors or [MON, MON + H9]
    for par, links in structures(nmax, 2, 3):
        cyc = leaf_cycle(par, links)
        if cyc and not include_cycles:
            continue
        lv = [i for i in range(len(par)) if is_leaf(par, i)]
        for ests in itertools.product((4, 12), repeat=len(lv)):
            for rpat in ('A', 'AB'):
                attrs = {}
                for k, i in enumerate(lv):
                    attrs[i] = {'estimate': ests[k], 'resource': 'A' if rpat == 'A' else 'AB'[k % 2]}
                for sched in scheds:
                    for bal in balances:
                        for a in anchors:
                            anchor = a if sched == 'fwd' else a + 21 * DAY
                            yield Scenario(sched, bal, anchor, mk_tasks(par, attrs), list(links),
                                           layer='L1c' if cyc else 'L1')


def L1x(tier, scheds=('fwd', 'bwd'), balances=(True, False)):
    """Quick-tier supplement: the 4-task structures in which a summary (or a task below a linked summary)
    carries a dependency link, so that inherited prerequisites and traversal order interact. (Thorough runs
    all 4-task structures in L1.)"""
    if tier != 'quick':
        return
    for par, links in structures(4, 2, 2):
        if len(par) != 4 or leaf_cycle(par, links):
            continue
        if not any((not is_leaf(par, p)) or (not is_leaf(par, s)) for p, s in links):
            continue
        lv = [i for i in range(4) if is_leaf(par, i)]
        for est in (4, 12):
            for rpat in ('A', 'each'):
                # 'each': every leaf on its own resource, so that capacity packing cannot hide a wrong bound
                attrs = {i: {'estimate': est, 'resource': 'A' if rpat == 'A' else 'R%d' % i} for i in lv}
                for sched in scheds:
                    for bal in balances:
                        anchor = MON if sched == 'fwd' else MON + 21 * DAY
                        yield Scenario(sched, bal, anchor, mk_tasks(par, attrs), list(links), layer='L1x')


L1Y_SHAPES = [
    (None, 0, 1, None, None),      # three levels and two further roots
    (None, 0, 0, 0, None),         # three siblings and an outside root
    (None, None, 1, 2, None),      # a chain of nesting in the middle, roots on both sides
    (None, None, 1, None, None),   # root, summary with one leaf, two more roots
]


def L1y(tier, scheds=('fwd', 'bwd'), balances=(True, False)):
    """Five tasks: three selected hierarchies x all link sets of <= 2 links plus all 3-link chains; one resource per leaf and a
    shared one; also run with string ids. (Small-scope complement: 3+ levels, 3 siblings, chains of 3 links.)"""
    for par in L1Y_SHAPES:
        n = len(par)
        cand = link_candidates(par)
        sets = [ls for ls in link_sets(par, 2) if ls]
        chains = [(a, b, c) for a in cand for b in cand for c in cand if a[1] == b[0] and b[1] == c[0] and len({a, b, c}) == 3]
        if tier == 'quick':
            sets = sets[::3]
            chains = chains[::2]
        triples = []
        if par == (None, None, 1, None, None):
            # a successor before the summary, the summary waiting for two later roots: every set of three links
            triples = [t for t in itertools.combinations(cand, 3) if not any((b, a) in t for a, b in t)]
        lv = [i for i in range(n) if is_leaf(par, i)]
        for links in sets + chains + triples:
            if direct_cycle(n, links) or leaf_cycle(par, links):
                continue
            full = tier == 'thorough' or links not in triples
            for rpat in (('A', 'each') if full else ('each',)):
                for idkind in (('int', 'str') if full else ('int',)):
                    attrs = {i: {'estimate': 4 + 4 * (k % 3), 'resource': 'A' if rpat == 'A' else 'R%d' % i} for k, i in enumerate(lv)}
                    tasks = [((i + 1) if idkind == 'int' else 'task-%s' % 'abcde'[i], par[i], dict(attrs.get(i, {}))) for i in range(n)]
                    for sched in scheds:
                        for bal in (balances if rpat == 'A' else balances[:1]):
                            anchor = MON if sched == 'fwd' else MON + 21 * DAY
                            yield Scenario(sched, bal, anchor, tasks, list(links), layer='L1y')


def attr_menu(S, sched):
    m = [
        {}, {'estimate': 0}, {'estimate': 0.5}, {'estimate': 4}, {'estimate': 12}, {'estimate': 2.5},
        {'estimate': 4, 'spent': 0}, {'estimate': 12, 'spent': 3}, {'estimate': 4, 'spent': 6}, {'estimate': 4, 'spent': 4},
        {'milestone': True}, {'estimate': 4, 'min_start': S + 2 * DAY}, {'estimate': 4, 'min_start': S - 2 * DAY},
    ]
    if sched == 'fwd':
        m += [
            {'estimate': 4, 'start': S - 5 * DAY}, {'estimate': 4, 'start': S + DAY},
            {'estimate': 4, 'start': S - 6 * DAY, 'end': S - 4 * DAY}, {'estimate': 4, 'end': S - 4 * DAY},
            # little work after a fixed start late in the day: the end encodes used capacity from midnight
            {'estimate': 0.5, 'start': S + DAY + timedelta(hours=10, minutes=30)}, {'estimate': 0.5, 'start': S - 5 * DAY + timedelta(hours=15)},
        ]
    return m


L2_STRUCTS = [
    ((None,), ()),                 # single leaf
    ((None, None), ()),            # two roots
    ((None, None), ((0, 1),)),     # chain of two
    ((None, 0, 0), ()),            # parent with two children
    ((None, 0, None), ((2, 1),)),  # parent with a child depending on an outside root
    ((None, 0, None), ((2, 0),)),  # parent (summary) depending on an outside root: inherited prerequisite
]

SUMMARY_NOISE = {'estimate': 99, 'spent': 7, 'start': MON - 40 * DAY, 'end': MON - 39 * DAY}


def L2(tier, scheds=('fwd', 'bwd')):
    """Attribute layer."""
    starts = [MON, MON + H9, MON + 5 * DAY, MON + 2 * DAY]
    for sched in scheds:
        for si, S0 in enumerate(starts):
            S = S0 if sched == 'fwd' else S0 + 21 * DAY
            menu = attr_menu(S, sched)
            clocks = [S - 30 * DAY, S, S + DAY + timedelta(hours=12), S + 10 * DAY] if sched == 'fwd' else [S - 30 * DAY]
            for par, links in L2_STRUCTS:
                lv = [i for i in range(len(par)) if is_leaf(par, i)]
                # full attribute product only with the default calendar and the first two starts;
                # calendars x starts with a reduced menu
                if tier == 'thorough':
                    # the whole product: every attribute combination x every calendar x every start x every clock
                    combos = list(itertools.product(range(len(menu)), repeat=len(lv)))
                    cals = CAL_MENU
                elif si < 2:
                    combos = list(itertools.product(range(len(menu)), repeat=len(lv)))
                    cals = ['none']
                else:
                    red = [0, 3, 7, 9, 10, 11] + ([13, 15, 17] if sched == 'fwd' else [])
                    combos = list(itertools.product(red, repeat=len(lv)))
                    cals = CAL_MENU if tier == 'thorough' else ['none', 'sparse', 'direct']
                if tier == 'quick' and len(lv) == 2 and si < 2:
                    red = [0, 1, 3, 7, 8, 9, 10, 11, 12] + ([13, 14, 15, 16, 17, 18] if sched == 'fwd' else [])
                    combos = list(itertools.product(red, repeat=len(lv)))
                for combo in combos:
                    attrs = {i: dict(menu[c], resource='A') for i, c in zip(lv, combo)}
                    for i in range(len(par)):
                        if i not in lv:
                            attrs[i] = dict(SUMMARY_NOISE) if sched == 'fwd' else {'estimate': 99, 'spent': 7}
                    for cal in cals:
                        for dflt in (0, 4):
                            for bal in (True, False):
                                # a running project (clock after the project start) with a start fixed later than the clock
                                more = [S + timedelta(hours=12)] if sched == 'fwd' and any('start' in attrs[i] for i in lv) else []
                                for clock in clocks + more:
                                    yield Scenario(sched, bal, S, mk_tasks(par, attrs), list(links),
                                                   cals={'A': cal}, dflt=dflt, clock=clock, layer='L2')


def L2b(tier):
    """Backward schedules of inputs that carry user-fixed dates on leaves (e.g. a forward result fed to the backward
    scheduler). Only C07 and C14 quantify over these (C09/C04 exclude user-fixed dates for backward schedules)."""
    E = MON + 21 * DAY
    menu = [{'estimate': 4}, {'estimate': 4, 'end': E + 2 * DAY}, {'estimate': 4, 'end': E - 3 * DAY},
            {'estimate': 4, 'start': E - 10 * DAY, 'end': E - 8 * DAY}, {'estimate': 12, 'start': E - 2 * DAY},
            {'estimate': 4, 'start': E - 30 * DAY}, {'milestone': True}]
    structs = [((None, 0, 0), ()), ((None, 0, None), ((0, 2),)), ((None, 0, None), ((1, 2),)), ((None, 0, 1), ()),
               ((None, 0, 0, None), ((0, 3),)), ((None, None), ((0, 1),))]
    for par, links in structs:
        lv = [i for i in range(len(par)) if is_leaf(par, i)]
        for combo in itertools.product(range(len(menu)), repeat=len(lv)):
            attrs = {i: dict(menu[c], resource='A') for i, c in zip(lv, combo)}
            for bal in (True, False):
                for A in (E, E + H9):
                    yield Scenario('bwd', bal, A, mk_tasks(par, attrs), list(links), layer='L2b')


L3_PATTERNS = {
    2: [(), ((0, 1),), ((1, 0),)],
    3: [(), ((0, 1),), ((0, 1), (1, 2)), ((0, 2), (1, 2)), ((0, 1), (0, 2)), ((2, 0),)],
}


def L3(tier, scheds=('fwd', 'bwd'), balances=(True, False), cals=None, ests=None, ks=None, decimal=False):
    """Competition layer: flat tasks on one resource."""
    FRI = datetime(2024, 2, 23, 16, 0)  # a Friday afternoon; the following days cross the leap day and the month boundary
    starts = [MON, MON + H9, MON + 5 * DAY, MON + 2 * DAY, FRI]
    if decimal:
        cals = cals or ['dec03', 'dec07']
        ests_all = [0.1, 0.2, 0.3, 0.7]
    else:
        cals = cals or CAL_MENU
        ests_all = ests or [0, 0.5, 4, 8, 12, 2.5]
    ks = ks or ((2, 3) if tier == 'thorough' else (2, 3))
    for k in ks:
        e = ests_all
        if k == 3 and tier == 'quick':
            e = [4, 12, 2.5] if not decimal else [0.1, 0.3, 0.7]
        for pat in L3_PATTERNS[k]:
            for est in itertools.product(e, repeat=k):
                attrs = {i: {'estimate': est[i], 'resource': 'A'} for i in range(k)}
                for cal in cals:
                    for S0 in (starts if (k == 2 or tier == 'thorough') else starts[:2] + starts[4:]):
                        for sched in scheds:
                            S = S0 if sched == 'fwd' else S0 + 21 * DAY
                            for bal in balances:
                                yield Scenario(sched, bal, S, mk_tasks((None,) * k, attrs), list(pat),
                                               cals={'A': cal}, layer='L7' if decimal else 'L3')
                                if sched == 'fwd' and S0 == MON + H9 and not decimal and cal in ('none', 'half'):
                                    # the clock stands exactly at the (non-midnight) project start: still "not later than the start"
                                    yield Scenario(sched, bal, S, mk_tasks((None,) * k, attrs), list(pat),
                                                   cals={'A': cal}, clock=S, layer='L3')


def L3y(tier, scheds=('fwd', 'bwd'), balances=(True, False)):
    """Year boundaries: days whose ISO week-year differs from the calendar year (29-31 Dec / 1-3 Jan)."""
    anchors = {'fwd': [datetime(2030, 12, 30), datetime(2026, 12, 31, 9, 0), datetime(2027, 1, 1)],
               'bwd': [datetime(2031, 1, 1), datetime(2027, 1, 4), datetime(2031, 1, 3, 15, 0)]}
    for k in (2, 3):
        for pat in L3_PATTERNS[k][:3]:
            for est in ((4, 8, 4), (8, 8, 8), (12, 4, 2.5)):
                attrs = {i: {'estimate': est[i], 'resource': 'A'} for i in range(k)}
                for cal in ('none', 'wk7'):
                    for sched in scheds:
                        for S in anchors[sched]:
                            for bal in balances:
                                yield Scenario(sched, bal, S, mk_tasks((None,) * k, attrs), list(pat), cals={'A': cal},
                                               layer='L7y' if cal == 'wk7' else 'L3y')


def L7s(tier, scheds=('fwd', 'bwd')):
    """Spent work booked in minutes (thirds of an hour): roll-ups and remaining work with more than two decimals."""
    third = 1 / 3
    for par, links in (((None, 0, 0), ()), ((None, 0, 1, 1), ()), ((None, 0, 0, None), ((0, 3),))):
        lv = [i for i in range(len(par)) if is_leaf(par, i)]
        for spents in itertools.product((third, 2 * third, 0.125, 2.25), repeat=min(2, len(lv))):
            attrs = {i: {'estimate': 4, 'spent': spents[k % len(spents)], 'resource': 'A'} for k, i in enumerate(lv)}
            for sched in scheds:
                A = MON if sched == 'fwd' else MON + 21 * DAY
                for bal in (True, False):
                    for dflt in (0, 4):
                        yield Scenario(sched, bal, A, mk_tasks(par, attrs), list(links), dflt=dflt, layer='L7s')


def L2c(tier):
    """Forward inputs in which summaries carry recorded dates that are CONSISTENT with their children (end == latest child end,
    every child has an end) although a nested summary still has open work: a plan imported with stale roll-ups."""
    S = MON
    past = [(S - 20 * DAY, S - 18 * DAY), (S - 25 * DAY, S - 24 * DAY)]
    for clock in (S - 30 * DAY + 29 * DAY, S + 2 * DAY):
        # Release(0) > Backend(1) > API(2, open leaf); Docs(3, finished leaf) under Release; Rollout(4) depends on Release / Backend
        for dep_on in (0, 1):
            for open_est in (12, 40):
                ds, de = past[0]
                tasks = [
                    (1, None, {'start': ds, 'end': de, 'estimate': 9, 'spent': 9}),
                    (2, 0, {'start': ds, 'end': de}),
                    (3, 1, {'estimate': open_est, 'resource': 'A'}),
                    (4, 0, {'estimate': 4, 'spent': 4, 'start': ds, 'end': de, 'resource': 'B'}),
                    (5, None, {'estimate': 8, 'resource': 'C'}),
                ]
                for bal in (True, False):
                    yield Scenario('fwd', bal, S, tasks, [(dep_on, 4)], clock=clock, layer='L2c')
                    # the dependent task inside another summary (inherited prerequisite)
                    tasks2 = tasks[:4] + [(5, None, {}), (6, 4, {'estimate': 8, 'resource': 'C'})]
                    yield Scenario('fwd', bal, S, tasks2, [(dep_on, 4)], clock=clock, layer='L2c')


def L3long(tier, scheds=('fwd', 'bwd'), balances=(True, False)):
    """Tasks that run for more than a week on calendars that are not weekly-periodic."""
    cals = ['none', 'holidays2', 'drop', 'sparse', 'direct'] if tier == 'thorough' else ['holidays2', 'drop', 'sparse']
    for k in (1, 2):
        for pat in L3_PATTERNS[k] if k == 2 else [()]:
            for est in itertools.product((60, 44, 20), repeat=k):
                attrs = {i: {'estimate': est[i], 'resource': 'A'} for i in range(k)}
                for cal in cals:
                    for S0 in (MON, MON + 2 * DAY):
                        for sched in scheds:
                            S = S0 if sched == 'fwd' else S0 + 21 * DAY
                            for bal in balances:
                                yield Scenario(sched, bal, S, mk_tasks((None,) * k, attrs), list(pat), cals={'A': cal}, layer='L3long')


def L4_inputs(tier, scheds=('fwd', 'bwd')):
    """Structures for the environment trees: L1 with n <= 3 (n <= 2 plus selected n = 3 in quick), one resource."""
    nmax = 3
    for par, links in structures(nmax, 2, 2):
        if leaf_cycle(par, links):
            continue
        if tier == 'quick' and len(par) == 3 and len(links) > 1:
            continue
        lv = [i for i in range(len(par)) if is_leaf(par, i)]
        for ests in ([(4,) * len(lv), (12,) * len(lv)] if tier == 'quick' else itertools.product((4, 12), repeat=len(lv))):
            attrs = {i: {'estimate': ests[k], 'resource': 'A'} for k, i in enumerate(lv)}
            for sched in scheds:
                anchor = MON if sched == 'fwd' else MON + 21 * DAY
                yield Scenario(sched, True, anchor, mk_tasks(par, attrs), list(links), cals={'A': 'lazy'}, layer='L4')


def L5(tier):
    """Unschedulable layer. Yields (scenario, expected_class) with class in
    {'ext-pred-undated', 'future-end', 'never-available', 'leaf-cycle'}."""
    S = MON
    # external predecessor lacking start or end
    for sched in ('fwd', 'bwd'):
        A = S if sched == 'fwd' else S + 21 * DAY
        for eattrs in ({}, {'start': S - 10 * DAY}, {'end': S - 9 * DAY}):
            for par, tgt in (((None,), 0), ((None, 0), 0), ((None, 0), 1)):
                lv = [i for i in range(len(par)) if is_leaf(par, i)]
                attrs = {i: {'estimate': 4, 'resource': 'A'} for i in lv}
                yield Scenario(sched, True, A, mk_tasks(par, attrs), [], ext=[(50, dict(eattrs))],
                               ext_links=[(('e', 0), ('x', tgt))], layer='L5'), 'ext-pred-undated'
    # external SUCCESSOR lacking dates (a task of another project that waits for a task / a summary of this one and has not been
    # planned yet): no class of unschedulable input, calc must end with a schedule or a RuntimeError
    for sched in ('fwd', 'bwd'):
        A = S if sched == 'fwd' else S + 21 * DAY
        for eattrs in ({}, {'start': A + 30 * DAY}, {'end': A + 31 * DAY}, {'estimate': 4}):
            for par, tgt in (((None,), 0), ((None, 0), 0), ((None, 0), 1), ((None, 0, 1), 0), ((None, 0, 1), 1), ((None, 0, 1), 2),
                             ((None, 0, None), 0), ((None, 0, None), 2)):
                lv = [i for i in range(len(par)) if is_leaf(par, i)]
                attrs = {i: {'estimate': 4, 'resource': 'A'} for i in lv}
                for bal in (True, False):
                    yield Scenario(sched, bal, A, mk_tasks(par, attrs), [], ext=[(50, dict(eattrs))],
                                   ext_links=[(('x', tgt), ('e', 0))], layer='L5'), None
                    if len(par) > 1:
                        # ... together with an internal link into / out of the linked task
                        other = (tgt + 1) % len(par)
                        il = [(other, tgt)] if sched == 'fwd' else [(tgt, other)]
                        if not direct_cycle(len(par), il) and not leaf_cycle(par, il) and other not in ancestors(par, tgt) \
                                and tgt not in ancestors(par, other):
                            yield Scenario(sched, bal, A, mk_tasks(par, attrs), il, ext=[(50, dict(eattrs))],
                                           ext_links=[(('x', tgt), ('e', 0))], layer='L5'), None
    # custom attributes whose values are not plain data: an object that cannot be copied (a handle with a lock), a generator, a
    # reference to another task of the plan (here: the last task of a 40-task chain of dependencies)
    for sched in ('fwd', 'bwd'):
        A = S if sched == 'fwd' else S + 60 * DAY
        for special in ('@handle', '@generator', '@task1', '@task39'):
            n = 40 if special == '@task39' else 3
            attrs = {i: {'estimate': 4, 'resource': 'A'} for i in range(n)}
            attrs[0]['see_also'] = special
            links = [(i, i + 1) for i in range(n - 1)]
            yield Scenario(sched, True, A, mk_tasks((None,) * n, attrs), links, layer='L5'), None
    # two broken external links whose ids cannot be compared with each other (diagnosis must still be a RuntimeError)
    for sched in ('fwd', 'bwd'):
        A = S if sched == 'fwd' else S + 21 * DAY
        for ids in ((7, 'x'), ('REQ-7', 3), (7, 8)):
            tasks = [(1, None, {'estimate': 4, 'resource': 'A'}), ('t2', None, {'estimate': 4, 'resource': 'A'})]
            for links in ([(('e', 0), ('x', 0)), (('e', 1), ('x', 0))], [(('e', 0), ('x', 0)), (('e', 1), ('x', 1))]):
                yield Scenario(sched, True, A, tasks, [], ext=[(ids[0], {}), (ids[1], {'start': S - 10 * DAY})],
                               ext_links=links, layer='L5'), 'ext-pred-undated'
    # forward task with a fixed end after the clock
    for clock in (S - 30 * DAY, S, S + DAY):
        for par, i in (((None,), 0), ((None, 0), 1), ((None, None), 1)):
            lv = [j for j in range(len(par)) if is_leaf(par, j)]
            attrs = {j: {'estimate': 4, 'resource': 'A'} for j in lv}
            attrs[i] = {'estimate': 4, 'resource': 'A', 'start': clock - DAY, 'end': clock + 2 * DAY}
            yield Scenario('fwd', True, S, mk_tasks(par, attrs), [], clock=clock, layer='L5'), 'future-end'
            attrs[i] = {'estimate': 4, 'resource': 'A', 'end': clock + timedelta(hours=1)}
            yield Scenario('fwd', True, S, mk_tasks(par, attrs), [], clock=clock, layer='L5'), 'future-end'
    # resources that never become available
    menu = NEVER_MENU if tier == 'thorough' else ['empty_direct', 'fixed0', 'ended', 'tiny_direct']
    for sched in ('fwd', 'bwd'):
        A = S if sched == 'fwd' else S + 21 * DAY
        for cal in menu:
            if cal == 'ended' and sched == 'bwd':
                continue  # a calendar that ended long ago is still available *before* a deadline
            if cal == 'notyet' and sched == 'fwd':
                continue
            for bal in (True, False):
                for par, links in (((None,), ()), ((None, None), ((0, 1),)), ((None, 0, 0), ())):
                    lv = [j for j in range(len(par)) if is_leaf(par, j)]
                    est = 4 if cal != 'tiny_direct' else 12
                    for rname in ('A', None):
                        # rname None: the resource of tasks that name no resource, supplied explicitly
                        attrs = {j: {'estimate': est, 'resource': rname} for j in lv}
                        yield Scenario(sched, bal, A, mk_tasks(par, attrs), list(links), cals={rname: cal},
                                       layer='L5'), 'never-available'
    # hierarchy-closing cycles (all structures with <= 4 tasks in both tiers: cycles through a grandparent need 4)
    for par, links in structures(4, 2, 3):
        if not leaf_cycle(par, links):
            continue
        lv = [i for i in range(len(par)) if is_leaf(par, i)]
        attrs = {i: {'estimate': 4, 'resource': 'A'} for i in lv}
        for sched in ('fwd', 'bwd'):
            A = S if sched == 'fwd' else S + 21 * DAY
            for bal in ((True, False) if (tier == 'thorough' or len(par) < 4) else (True,)):
                yield Scenario(sched, bal, A, mk_tasks(par, attrs), list(links), layer='L5'), 'leaf-cycle'


def L5b(tier):
    """C14 only: calendars whose validity bound falls in the middle of the anchor day, anchors before and after that instant.
    The capacity of such a day depends on the time of day at which it is asked; the properties about amounts and dates
    leave that undefined, but calc must still end with a schedule or a RuntimeError."""
    from .scenario import MON as M
    for sched in ('fwd', 'bwd'):
        for hour in (0, 9, 15, 23):
            A = (M if sched == 'fwd' else M + 21 * DAY) + timedelta(hours=hour, minutes=30 if hour else 0)
            for cal in ('from_noon', 'until_noon', 'fixed_from_noon', 'fixed_until_noon'):
                for k, links in ((1, ()), (2, ()), (2, ((0, 1),))):
                    for est in (4, 12):
                        attrs = {i: {'estimate': est, 'resource': 'A'} for i in range(k)}
                        for bal in (True, False):
                            yield Scenario(sched, bal, A, mk_tasks((None,) * k, attrs), list(links), cals={'A': cal}, layer='L5b')


def L6(tier, include_cycles=False):
    """External-link layer: a second WBS Y with a dated task E linked with tasks of X."""
    S = MON
    E_DATED = {'start': S + 2 * DAY, 'end': S + 3 * DAY + timedelta(hours=12), 'estimate': 4}
    for sched in ('fwd', 'bwd'):
        A = S if sched == 'fwd' else S + 21 * DAY
        ed = dict(E_DATED) if sched == 'fwd' else {'start': A - 6 * DAY, 'end': A - 5 * DAY, 'estimate': 4}
        for eid0 in (50, 1, 'last'):  # 1 / last: shares an id with the first / the last member of X (two projects numbering from 1)
            for par in ((None,), (None, None), (None, 0), (None, 0, 0), (None, 0, None)):
                n = len(par)
                if eid0 == 'last' and n == 1:
                    continue
                eid = n if eid0 == 'last' else eid0
                lv = [i for i in range(n) if is_leaf(par, i)]
                attrs = {i: {'estimate': 4, 'resource': 'A'} for i in lv}
                choices = [('x', i) for i in range(n)]
                combos = []
                for a in choices:
                    combos.append([(('e', 0), a)])          # E -> a
                    combos.append([(a, ('e', 0))])          # a -> E
                    for b in choices:
                        if a != b:
                            combos.append([(a, ('e', 0)), (('e', 0), b)])  # a -> E -> b
                internal = [()] + [(l,) for l in link_candidates(par)] if n <= 3 else [()]
                for el, il in [(e, i) for e in combos for i in internal]:
                    if il and (len(el) != 1 or eid != 50):
                        continue  # internal link variants only with a single external link and a distinct external id
                    par2 = tuple(par) + (None,)
                    links2 = [((a[1] if a[0] == 'x' else n), (b[1] if b[0] == 'x' else n)) for a, b in el] + list(il)
                    if direct_cycle(n + 1, links2):
                        continue
                    cyc = leaf_cycle(par2, links2)
                    if cyc and not include_cycles:
                        continue
                    for bal in (True, False):
                        for clock in ([S - 30 * DAY, S + 5 * DAY] if sched == 'fwd' else [S - 30 * DAY]):
                            sc = Scenario(sched, bal, A, mk_tasks(par, attrs), list(il), ext=[(eid, dict(ed))],
                                          ext_links=el, clock=clock, layer='L6c' if cyc else 'L6')
                            yield sc


def L1i(tier, scheds=('fwd', 'bwd')):
    """The structures of L1 (n <= 3) planned by a scheduler that was given no date: ForwardScheduler() / BackwardScheduler() start /
    end the project at the current time. The clock stands at the scenario's anchor when the scheduler is built and when calc runs,
    so every oracle reads the input as 'project anchored at the clock value'."""
    for sc in L1(tier, scheds, nmax=3, anchors=[MON, MON + H9]):
        yield Scenario(sc.sched, sc.balance, sc.anchor, sc.tasks, sc.links, cals=sc.cals, dflt=sc.dflt, clock=sc.anchor, layer='L1i')


LX_STRUCTS = [
    ((None,), ()),                 # single leaf
    ((None, None), ()),            # two roots
    ((None, None), ((0, 1),)),     # chain of two
    ((None, None), ((1, 0),)),     # chain of two, the waiting task listed first
    ((None, 0, 0), ()),            # parent with two children
    ((None, 0, 0), ((2, 1),)),     # ... the first child waits for the second
    ((None, 0, None), ((2, 1),)),  # a child depending on an outside root listed later
    ((None, 0, None), ((2, 0),)),  # a summary depending on an outside root listed later
    ((None, 0, None), ((0, 2),)),  # an outside root depending on a summary
]


def LX(tier, scheds=('fwd', 'bwd')):
    """Cross layer: the features the other layers vary one or two at a time, varied TOGETHER on inputs of one to three tasks -
    structure (with links pointing backwards in WBS order) x attributes per leaf (remaining work, progress, milestone, earliest
    start, a start fixed at 09:00 of a later day, no estimate) x one or two resources x calendar x position of the clock (before the
    project, between the project start and the fixed start, after both; or the scheduler built without a date) x balancing x a dated
    task of another project as predecessor / successor whose id equals the last member's x start at midnight / 09:00.
    Quick thins the product (every pair of feature values still occurs); thorough enumerates it completely."""
    quick = tier == 'quick'
    for sched in scheds:
        fwd = sched == 'fwd'
        for S0 in (MON, MON + H9):
            S = S0 if fwd else S0 + 21 * DAY
            menu = [{'estimate': 4}, {'estimate': 12}, {'estimate': 4, 'spent': 1}, {'milestone': True}, {'estimate': 0.5}, {},
                    {'estimate': 4, 'min_start': S + 2 * DAY}]
            if fwd:
                menu.append({'estimate': 2.5, 'start': seams.midnight(S) + DAY + H9})
            ed = {'start': S + 2 * DAY, 'end': S + 3 * DAY + timedelta(hours=12), 'estimate': 4} if fwd else \
                {'start': S - 6 * DAY, 'end': S - 5 * DAY, 'estimate': 4}
            clocks = [S - 30 * DAY, S + timedelta(hours=12), S + DAY + timedelta(hours=12), 'implicit'] if fwd else [S - 30 * DAY, 'implicit']
            k = 0
            for par, links in LX_STRUCTS:
                n = len(par)
                lv = [i for i in range(n) if is_leaf(par, i)]
                exts = [None, 'pred', 'succ']
                for combo in itertools.product(range(len(menu)), repeat=len(lv)):
                    # 'dN': the first leaf on a resource called 'default', the others without any resource (two different resources)
                    for rpat in (('A', 'AB', 'dN') if len(lv) > 1 else ('A',)):
                        attrs = {i: dict(menu[c], resource='A' if rpat == 'A' else 'AB'[j % 2]) for j, (i, c) in enumerate(zip(lv, combo))}
                        if rpat == 'dN':
                            for j, i in enumerate(lv):
                                if j == 0:
                                    attrs[i]['resource'] = 'default'
                                else:
                                    del attrs[i]['resource']
                        dflts = (0, 4) if any('estimate' not in attrs[i] and 'milestone' not in attrs[i] for i in lv) else (0,)
                        for cal in ('none', 'wk58', 'sparse'):
                            if (S0 != MON or rpat == 'dN') and cal != 'none':
                                continue
                            for clock in clocks:
                                for bal in (True, False):
                                    for ext in exts:
                                        for dflt in dflts:
                                            k += 1
                                            if quick and (k * 7) % 11 > 2:
                                                continue  # 3 of every 11, spread over all loops
                                            kw = {}
                                            if ext == 'pred':
                                                # the outside task carries the id of the LAST member and is waited for by the first
                                                kw = dict(ext=[(n, dict(ed))], ext_links=[(('e', 0), ('x', 0))])
                                            elif ext == 'succ':
                                                kw = dict(ext=[(n, dict(ed))], ext_links=[(('x', n - 1), ('e', 0))])
                                            implicit = clock == 'implicit'
                                            yield Scenario(sched, bal, S, mk_tasks(par, attrs), list(links),
                                                           cals={'A': cal} if cal != 'none' else {}, dflt=dflt,
                                                           clock=S if implicit else clock, layer='L1i' if implicit else 'LX', **kw)


L8_SHAPES = [
    (None, 0, 0, None),        # summary with two children and an outside root
    (None, 0, 1, None),        # three levels and an outside root
    (None, 0, 0, 0),           # three siblings
    (None, None, None, None),  # four roots
    (None, 0, None, 2),        # two summaries with one child each
]


def L8(tier, scheds=('fwd', 'bwd'), balances=(True, False)):
    """Mixed layer: hierarchy x links x competition on TWO resources with different calendars x one leaf with recorded progress,
    an earliest start or (forward) a fixed start. Every feature is covered alone by L1-L3; this layer covers their interaction
    (e.g. a task waiting for a summary whose children compete for a part-time resource)."""
    variants = [{}, {'spent': 3}, {'min_start': 2}, {'start': 1}]
    cal_pairs = [('half', 'none'), ('sparse', 'holidays')]
    k = 0
    for par in L8_SHAPES:
        n = len(par)
        lv = [i for i in range(n) if is_leaf(par, i)]
        for links in link_sets(par, 2):
            if direct_cycle(n, links) or leaf_cycle(par, links):
                continue
            for rbits in range(1, 2 ** (len(lv) - 1)):  # first leaf on A; at least one leaf on B
                res = {i: ('B' if j and (rbits >> (j - 1)) & 1 else 'A') for j, i in enumerate(lv)}
                for ests in ((12, 2.5, 20, 4), (4, 12, 2.5, 20)):
                    for vi, var in enumerate(variants):
                        for target in (lv[0], lv[-1]):
                            if not var and target != lv[0]:
                                continue
                            for cp in cal_pairs:
                                for sched in scheds:
                                    if 'start' in var and sched != 'fwd':
                                        continue
                                    for bal in balances:
                                        k += 1
                                        if tier == 'quick' and k % 9:
                                            continue
                                        A = MON if sched == 'fwd' else MON + 28 * DAY
                                        attrs = {i: {'estimate': ests[j], 'resource': res[i]} for j, i in enumerate(lv)}
                                        extra = {}
                                        if 'spent' in var:
                                            extra = {'spent': 3}
                                        elif 'min_start' in var:
                                            extra = {'min_start': A + 2 * DAY + H9 if sched == 'fwd' else A - 20 * DAY}
                                        elif 'start' in var:
                                            extra = {'start': A + DAY + timedelta(hours=10, minutes=30)}
                                        attrs[target].update(extra)
                                        yield Scenario(sched, bal, A, mk_tasks(par, attrs), list(links),
                                                       cals={'A': cp[0], 'B': cp[1]}, layer='L8')


def L2m(tier, scheds=('fwd',)):
    """Milestones that carry recorded dates (a plan that was scheduled before, then re-planned): three flat tasks, every acyclic set
    of <= 2 links, every task a leaf with open work, a plain milestone or a milestone with a recorded end / start and end in the
    past; at least one milestone with recorded dates. (A milestone is always placed anew: its recorded dates fix nothing.)"""
    for sched in scheds:
        S = MON if sched == 'fwd' else MON + 21 * DAY
        menu = [{'estimate': 4, 'resource': 'A'}, {'estimate': 12, 'resource': 'B'}, {'milestone': True},
                {'milestone': True, 'end': S - 4 * DAY}, {'milestone': True, 'start': S - 6 * DAY, 'end': S - 4 * DAY, 'estimate': 3}]
        par = (None, None, None)
        for links in link_sets(par, 2):
            if direct_cycle(3, links) or leaf_cycle(par, links):
                continue
            for combo in itertools.product(range(len(menu)), repeat=3):
                if not any(c >= 3 for c in combo):
                    continue
                if tier == 'quick' and not links:
                    continue
                attrs = {i: dict(menu[c]) for i, c in enumerate(combo)}
                for bal in (True, False):
                    for clock in ((S - 30 * DAY, S + DAY + H9) if sched == 'fwd' else (S - 30 * DAY,)):
                        yield Scenario(sched, bal, S, mk_tasks(par, attrs), list(links), clock=clock, layer='L2m')


def L2n(tier, scheds=('fwd', 'bwd')):
    """Stale values on summaries wherever they stand: every forest of <= 4 tasks (thorough: 5) with at least one summary; every
    summary carries user-entered dates, estimate and spent (forward: in the past), also when it stands AFTER leaf siblings or below
    another such summary; one leaf variant with the leaves on one resource and one with a resource each."""
    nmax = 4 if tier == 'quick' else 5
    for n in range(2, nmax + 1):
        for par in forests(n):
            lv = [i for i in range(n) if is_leaf(par, i)]
            if len(lv) == n:
                continue
            for sched in scheds:
                A = MON if sched == 'fwd' else MON + 21 * DAY
                noise0 = dict(SUMMARY_NOISE) if sched == 'fwd' else {'estimate': 99, 'spent': 7, 'start': A - 3 * DAY, 'end': A + 30 * DAY}
                # second variant: a single placeholder date typed into both date fields (start == end)
                same = MON - 40 * DAY if sched == 'fwd' else A - 3 * DAY
                for noise, rpat in ((noise0, 'A'), (noise0, 'each'), ({'estimate': 5, 'spent': 1, 'start': same, 'end': same}, 'A')):
                    if True:
                        attrs = {i: {'estimate': 4 + 4 * (k % 2), 'resource': 'A' if rpat == 'A' else 'R%d' % i} for k, i in enumerate(lv)}
                        for i in range(n):
                            if i not in lv:
                                attrs[i] = dict(noise)
                        for bal in (True, False):
                            yield Scenario(sched, bal, A, mk_tasks(par, attrs), [], clock=MON - 30 * DAY if sched == 'fwd' else None, layer='L2n')


def L7m(tier, scheds=('fwd', 'bwd')):
    """Instants with microseconds meet dated calendars: a task on a 7-units-a-day resource (its end / start is midnight plus a
    share of a day that is not a whole number of seconds) linked with a task on a resource whose capacity comes from a dated
    calendar (dated days only, weekly minus holidays, weekly plus an extra Saturday); also a project start / deadline that
    carries microseconds. (Layer name starts with L7: decimal tolerances.)"""
    for sched in scheds:
        for micro in (False, True):
            A0 = MON if sched == 'fwd' else MON + 21 * DAY
            A = A0 + (H9 + timedelta(microseconds=250) if micro else timedelta(0))
            for calb in ('direct', 'holidays', 'extra_sat'):
                for e1 in (3, 12, 10):
                    for e2 in (4, 10):
                        for links in (((0, 1),), ((1, 0),), ()):
                            attrs = {0: {'estimate': e1, 'resource': 'A'}, 1: {'estimate': e2, 'resource': 'B'}}
                            for bal in (True, False):
                                yield Scenario(sched, bal, A, mk_tasks((None, None), attrs), list(links),
                                               cals={'A': 'wk7', 'B': calb}, layer='L7m')


def L2ms(tier, scheds=('fwd', 'bwd')):
    """A summary task that carries the milestone flag (a phase gate used as a grouping task). The properties about summaries'
    own dates (C07) and about milestone placement (C02) contradict each other there and do not use this layer; the properties
    about the LEAVES (every leaf is scheduled and reserves its remaining work, the result mirrors the input, calc ends properly) do."""
    for n in (2, 3, 4):
        for par in forests(n):
            lv = [i for i in range(n) if is_leaf(par, i)]
            summ = [i for i in range(n) if i not in lv]
            if not summ:
                continue
            for flagged in ([summ[0]], summ):
                for links in ((), ((lv[0], summ[-1]),), ((summ[0], lv[-1]),)):
                    if links and (direct_cycle(n, links) or leaf_cycle(par, links) or links[0][0] in ancestors(par, links[0][1])
                                  or links[0][1] in ancestors(par, links[0][0]) or links[0][0] == links[0][1]):
                        continue
                    for sched in scheds:
                        A = MON if sched == 'fwd' else MON + 21 * DAY
                        attrs = {i: {'estimate': 4 + 8 * (k % 2), 'resource': 'AB'[k % 2]} for k, i in enumerate(lv)}
                        for i in flagged:
                            attrs[i] = {'milestone': True}
                        for bal in (True, False):
                            yield Scenario(sched, bal, A, mk_tasks(par, attrs), list(links), layer='L2ms')


def L1p(tier, scheds=('fwd', 'bwd')):
    """Structures of <= 3 tasks (4 in thorough) on which, after building, every illegal link / hierarchy assignment was attempted and
    rejected (self-links, links with a parent or child, cycles; see scenario.build): the WBS is the same as before the attempts
    and is scheduled like it."""
    for sc in L1(tier, scheds, balances=(True,), anchors=[MON], nmax=3 if tier == 'quick' else 4):
        if sc.links:
            sc.layer = 'L1p'
            yield sc


def L6r(tier):
    """As L6 (links to a dated task outside the WBS), but the outside task got outside by REMOVAL: it is built inside the WBS below
    a summary, linked, and the summary is then removed. Only inputs in which the outside task is a predecessor (id 50 variant)."""
    for sc in L6(tier):
        if sc.ext and sc.ext[0][0] == 50 and len(sc.ext_links) == 1 and sc.ext_links[0][0][0] == 'e' and not sc.links:
            sc.layer = 'L6r'
            yield sc


def L8b(tier, scheds=('fwd', 'bwd')):
    """A summary whose LATER child both starts earlier and ends later than the child listed before it (the first child is short and
    held back - forward by an earliest start or a predecessor, backward pulled early by a successor; the second is long and on
    another resource), with a task (or an enclosing summary) depending on / preceding that summary: the summary's roll-up and
    everything that waits for it must follow the long child."""
    for sched in scheds:
        A = MON if sched == 'fwd' else MON + 28 * DAY
        for nested in (False, True):
            for long_est in (28, 44):
                for held in ('min_start', 'link'):
                    # indices: [E] S c1 c2 T [X]
                    tasks, links = [], []
                    par_s = None
                    if nested:
                        tasks.append((1, None, {}))
                        par_s = 0
                    si = len(tasks)
                    tasks.append((si + 1, par_s, {}))
                    c1 = len(tasks)
                    a1 = {'estimate': 4, 'resource': 'A'}
                    if held == 'min_start' and sched == 'fwd':
                        a1['min_start'] = A + 2 * DAY
                    tasks.append((c1 + 1, si, a1))
                    tasks.append((c1 + 2, si, {'estimate': long_est, 'resource': 'B'}))
                    t = len(tasks)
                    tasks.append((t + 1, None, {'estimate': 4, 'resource': 'C'}))
                    links.append(((0 if nested else si), t) if sched == 'fwd' else (t, (0 if nested else si)))
                    if held == 'link' or sched == 'bwd':
                        x = len(tasks)
                        tasks.append((x + 1, None, {'estimate': 16, 'resource': 'D'}))
                        links.append((x, c1) if sched == 'fwd' else (c1, x))
                    for bal in (True, False):
                        yield Scenario(sched, bal, A, tasks, links, layer='L8b')


def LS(tier, scheds=('fwd', 'bwd')):
    """Scale probes for the schedulers: fixed inputs larger than the enumerated layers. (1) a leaf below 40 nested summaries; the
    outermost summary waits for an 80-hour task, and a root standing FIRST in the plan waits for the deep leaf (so the leaf is
    reached through a link before its ancestors are entered); backward: the mirror. (2) plans that run for three months across a
    New Year on one resource: three independent 160-hour tasks, and a chain prepare (dev) >> soak test (ops, 320 h) >> release (dev)."""
    from datetime import datetime as _dt
    for sched in scheds:
        A = MON if sched == 'fwd' else MON + 70 * DAY
        depth = 40
        tasks = [(1, None, {'estimate': 8, 'resource': 'C'}), (2, None, {'estimate': 80, 'resource': 'A'})]
        first_s = len(tasks)
        for d in range(depth):
            tasks.append((3 + d, None if d == 0 else first_s + d - 1, {}))
        leaf = len(tasks)
        tasks.append((3 + depth, leaf - 1, {'estimate': 8, 'resource': 'B'}))
        links = [(1, first_s), (leaf, 0)] if sched == 'fwd' else [(first_s, 1), (0, leaf)]
        for bal in (True, False):
            yield Scenario(sched, bal, A, tasks, links, layer='LS')
        NY = _dt(2030, 11, 4) if sched == 'fwd' else _dt(2031, 2, 8)
        three = [(i + 1, None, {'estimate': 160, 'resource': 'A'}) for i in range(3)]
        chain = [(1, None, {'estimate': 40, 'resource': 'dev'}), (2, None, {'estimate': 320, 'resource': 'ops'}),
                 (3, None, {'estimate': 24, 'resource': 'dev'})]
        # nine 160-hour tasks on one resource: the last ones look for a free day across more than 200 booked days
        nine = [(i + 1, None, {'estimate': 160, 'resource': 'A'}) for i in range(9)]
        yield Scenario(sched, True, NY, nine, [], layer='LS')
        for bal in (True, False):
            yield Scenario(sched, bal, NY, three, [], layer='LS')
            yield Scenario(sched, bal, NY, chain, [(0, 1), (1, 2)], layer='LS')
            yield Scenario(sched, bal, NY, chain, [(0, 1), (1, 2)], cals={'dev': 'wk58', 'ops': 'wk7'}, layer='L7S')


def L7t(tier, scheds=('fwd', 'bwd')):
    """Remaining work that is tiny, or exceeds a day's capacity by a tiny amount: hours logged to the minute or the second
    (8 h 30 s = 8.008333, 7.995 of 8 spent), float residue (0.1 + 0.2 against 0.3), amounts below one nanohour. (L7: tolerances.)"""
    vals = [(0.1 + 0.2, 0.3), (8, 7.995), (0.005, None), (8.008333, None), (15.003333, None), (1e-9, None), (5e-10, None), (10, 1.995),
            (16.0000001, None)]
    for sched in scheds:
        A = MON if sched == 'fwd' else MON + 21 * DAY
        for (e, sp) in vals:
            for cal in ('none', 'half'):
                for second in (None, {'estimate': 4, 'resource': 'A'}, {'milestone': True}):
                    a = {'estimate': e, 'resource': 'A'}
                    if sp is not None:
                        a['spent'] = sp
                    par = (None,) if second is None else (None, None)
                    attrs = {0: a}
                    links = []
                    if second is not None:
                        attrs[1] = dict(second)
                        links = [(0, 1)]
                    for bal in (True, False):
                        for anchor in (A, A + 5 * DAY):  # a Monday and a Saturday
                            yield Scenario(sched, bal, anchor, mk_tasks(par, attrs), links, cals={'A': cal}, layer='L7t')


def L1neg(tier, scheds=('fwd', 'bwd')):
    """Ids of unusual value or type in scheduled plans: negative ids that mirror positive ones (-k next to n + 1 - k), 0, large
    numbers, strings equal to numbers: structures of 3-5 tasks with one summary."""
    idsets = [(1, 2, -1), (1, -2, 2), (0, -1, 1), (1, 2, 3, -2), (1, 2, 3, 4, -3), (4, 3, 2, 1, -1), (1, 2, 3, -1, -2), ('1', 1, -1),
              (10 ** 6, 1, 2), (1, 2, 3, 4, -5), (2, 3, 4, 5, -4)]
    for ids in idsets:
        n = len(ids)
        for par in ((None,) * n, (None, 0) + (None,) * (n - 2), (None, 0, 0) + (None,) * (n - 3)):
            lv = [i for i in range(n) if is_leaf(par, i)]
            attrs = {i: {'estimate': 4 + 4 * (k % 2), 'resource': 'AB'[k % 2]} for k, i in enumerate(lv)}
            tasks = [(ids[i], par[i], dict(attrs.get(i, {}))) for i in range(n)]
            for links in ((), ((n - 1, 0),) if par[0] is None and 0 in lv else ((n - 1, n - 2),)):
                if links and (direct_cycle(n, links) or leaf_cycle(par, links)):
                    continue
                for sched in scheds:
                    A = MON if sched == 'fwd' else MON + 21 * DAY
                    for bal in (True, False):
                        yield Scenario(sched, bal, A, tasks, list(links), layer='L1neg')
