"""Engine B: scenario description, construction through pjplan's public API, execution under the
virtual clock / lookup budget, and the observation the oracles work on."""
from datetime import datetime, timedelta

from .. import runtime, seams

DAY = timedelta(days=1)
MON = datetime(2024, 1, 1)  # a Monday; all scenarios are anchored here

_classes = None


def _cls():
    global _classes
    if _classes is None:
        _classes = seams.make_calendar_classes()
    return _classes


# ----------------------------------------------------------------------------------------------
# calendars (all built from pjplan's own classes)

def build_calendar(spec, anchor=MON):
    """spec: name from the menu (str) or an explicit tuple. Returns an IWorkCalendar or None (= not supplied)."""
    from pjplan import WeeklyCalendar, DirectCalendar, FixedCalendar
    if spec is None or spec == 'none':
        return None
    a = seams.midnight(anchor)
    if spec == 'wk58':
        return WeeklyCalendar(days=[0, 1, 2, 3, 4], units_per_day=8)
    if spec == 'wk7':
        # 7 units a day: shares of a day are not whole seconds, dates carry microseconds
        return WeeklyCalendar(days=[0, 1, 2, 3, 4], units_per_day=7)
    if spec == 'sparse':
        return WeeklyCalendar(units_per_day={0: 4, 2: 2.5, 4: 8})
    if spec == 'direct':
        d = {}
        for off, u in ((0, 8), (1, 0), (2, 0.5), (3, 8), (6, 4), (7, 8), (8, 8), (9, 8), (10, 8), (13, 8), (14, 8),
                       (-1, 8), (-2, 4), (-3, 0), (-4, 0.5), (-5, 8), (-8, 8), (-9, 8), (-10, 8), (-11, 8), (-12, 8)):
            d[a + off * DAY] = u
        return DirectCalendar(d)
    if spec == 'extra_sat':
        # a working Saturday on top of the weekly pattern: capacity that only the dated calendar knows about
        return WeeklyCalendar(days=[0, 1, 2, 3, 4], units_per_day=8) + DirectCalendar({a + 5 * DAY: 4, a - 2 * DAY: 4, a + 12 * DAY: 4,
                                                                                      a - 9 * DAY: 4})
    if spec == 'holidays':
        return WeeklyCalendar(days=[0, 1, 2, 3, 4], units_per_day=8) - DirectCalendar({a + DAY: 8, a + 2 * DAY: 4,
                                                                                      a - DAY * 3: 8, a - DAY * 4: 4})
    if spec == 'holidays2':
        # holidays in the SECOND week the scheduler meets (forward: after the start, backward: before the deadline)
        return WeeklyCalendar(days=[0, 1, 2, 3, 4], units_per_day=8) - DirectCalendar({a + 8 * DAY: 8, a + 9 * DAY: 4,
                                                                                      a - 13 * DAY: 8, a - 12 * DAY: 4})
    if spec == 'drop':
        # capacity drops from the second week on (forward) / was lower before the last week (backward)
        hi = timedelta(hours=23, minutes=59, seconds=59, microseconds=999999)
        return (WeeklyCalendar(start=a - 7 * DAY, end=a + 6 * DAY + hi, days=[0, 1, 2, 3, 4], units_per_day=8)
                | WeeklyCalendar(days=[0, 1, 2, 3, 4], units_per_day=4))
    if spec == 'half':
        return WeeklyCalendar(days=[0, 1, 2, 3, 4, 5, 6], units_per_day=8) * 0.5
    if spec == 'or2':
        return WeeklyCalendar(days=[0, 2, 4], units_per_day=8) | FixedCalendar(2)
    if spec == 'bounded':
        lo = a - 20 * DAY
        hi = a + 20 * DAY + timedelta(hours=23, minutes=59, seconds=59, microseconds=999999)
        return WeeklyCalendar(start=lo, end=hi, days=[0, 1, 2, 3, 4], units_per_day=8) | FixedCalendar(4)
    if spec == 'bounded_half':
        # a part-time contract: calendars with validity bounds scaled by a plain number. The contract pauses for four days around
        # the anchor: both schedulers meet days on which the base calendars have no information
        hi = timedelta(hours=23, minutes=59, seconds=59, microseconds=999999)
        return (WeeklyCalendar(start=a + 2 * DAY, end=a + 40 * DAY + hi, days=[0, 1, 2, 3, 4], units_per_day=8)
                | WeeklyCalendar(start=a - 40 * DAY, end=a - 3 * DAY + hi, days=[0, 1, 2, 3, 4], units_per_day=8)) * 0.5
    if spec == 'div_zero':
        # capacity divided by a calendar that has no capacity on Tuesdays (8 / 2 on the other working days)
        return WeeklyCalendar(days=[0, 1, 2, 3, 4], units_per_day=8) / WeeklyCalendar(units_per_day={0: 2, 1: 0, 2: 2, 3: 2, 4: 2})
    if spec == 'func_bounded':
        # a function applied to calendars that have no information for four days around the anchor
        hi = timedelta(hours=23, minutes=59, seconds=59, microseconds=999999)
        return (WeeklyCalendar(start=a + 2 * DAY, end=a + 40 * DAY + hi, days=[0, 1, 2, 3, 4], units_per_day=8)
                | WeeklyCalendar(start=a - 40 * DAY, end=a - 3 * DAY + hi, days=[0, 1, 2, 3, 4], units_per_day=8)).apply(_half)
    if spec == 'bounded_div':
        lo = a - 20 * DAY
        hi = a + 20 * DAY + timedelta(hours=23, minutes=59, seconds=59, microseconds=999999)
        return WeeklyCalendar(start=lo, end=hi, days=[0, 1, 2, 3, 4], units_per_day=8) / 2
    if spec in ('from_noon', 'until_noon', 'fixed_from_noon', 'fixed_until_noon'):
        # validity bound at noon of the anchor day (forward) / of the day before the deadline (backward)
        noon = a + timedelta(hours=12)
        prev_noon = a - DAY + timedelta(hours=12)
        if spec == 'from_noon':
            return WeeklyCalendar(start=noon, days=[0, 1, 2, 3, 4, 5, 6], units_per_day=8) | WeeklyCalendar(end=prev_noon - 2 * DAY, days=[0, 1, 2, 3, 4, 5, 6], units_per_day=8)
        if spec == 'until_noon':
            return WeeklyCalendar(end=noon, days=[0, 1, 2, 3, 4, 5, 6], units_per_day=8) | WeeklyCalendar(start=noon + 3 * DAY, days=[0, 1, 2, 3, 4, 5, 6], units_per_day=8)
        if spec == 'fixed_from_noon':
            return FixedCalendar(8, start=prev_noon) 
        return FixedCalendar(8, end=noon) | FixedCalendar(8, start=noon + 2 * DAY)
    if spec == 'dec03':
        return WeeklyCalendar(days=[0, 1, 2, 3, 4], units_per_day=0.3)
    if spec == 'dec07':
        return WeeklyCalendar(units_per_day={0: 0.7, 1: 0.1, 2: 0.3, 3: 0.2, 4: 0.7})
    # unschedulable menu
    if spec == 'empty_direct':
        return DirectCalendar({})
    if spec == 'fixed0':
        return FixedCalendar(0)
    if spec == 'weekly_noday':
        return WeeklyCalendar(days=[], units_per_day=8)
    if spec == 'ended':
        return WeeklyCalendar(end=a - 30 * DAY, days=[0, 1, 2, 3, 4], units_per_day=8)
    if spec == 'notyet':
        return WeeklyCalendar(start=a + 30 * DAY, days=[0, 1, 2, 3, 4], units_per_day=8)
    if spec == 'tiny_direct':
        return DirectCalendar({a: 1, a + DAY: 1, a - DAY: 1, a - 2 * DAY: 1})
    raise runtime.HarnessError('unknown calendar spec %r' % (spec,))


def _half(units):
    return units * 0.5


CAL_MENU = ['none', 'wk58', 'sparse', 'direct', 'holidays', 'half', 'or2', 'bounded', 'wk7', 'bounded_half', 'div_zero', 'func_bounded']
NEVER_MENU = ['empty_direct', 'fixed0', 'weekly_noday', 'ended', 'notyet', 'tiny_direct']


# ----------------------------------------------------------------------------------------------
# scenario

class Scenario:
    """Plain-data description of one scheduler input + configuration.

    tasks: list of (id, parent_index|None, attrs) in preorder; attrs keys are Task kwargs.
    links: list of (pred_index, succ_index).
    cals:  dict resource name -> calendar spec ('none' = resource not supplied).
    ext:   list of (id, attrs) external tasks living in a second WBS, and ext_links:
           list of (('x'|'e', idx), ('x'|'e', idx)) pred -> succ pairs involving them.
    """
    __slots__ = ('sched', 'balance', 'dflt', 'anchor', 'clock', 'tasks', 'links', 'cals', 'ext', 'ext_links', 'layer')

    def __init__(self, sched, balance, anchor, tasks, links, cals=None, dflt=0, clock=None, ext=None, ext_links=None,
                 layer=''):
        self.sched = sched
        self.balance = balance
        self.dflt = dflt
        self.anchor = anchor
        self.clock = clock
        self.tasks = tasks
        self.links = links
        self.cals = cals or {}
        self.ext = ext or []
        self.ext_links = ext_links or []
        self.layer = layer

    def to_json(self):
        def dt(v):
            return v.isoformat() if isinstance(v, datetime) else v
        return {'layer': self.layer, 'sched': self.sched, 'balance': self.balance, 'default_estimate': self.dflt,
                'anchor': dt(self.anchor), 'clock': dt(self.clock),
                'tasks': [[i, p, {k: dt(v) for k, v in a.items()}] for i, p, a in self.tasks],
                'links': [list(x) for x in self.links], 'cals': [[k, v] for k, v in self.cals.items()],
                'ext': [[i, {k: dt(v) for k, v in a.items()}] for i, a in self.ext],
                'ext_links': [[list(a), list(b)] for a, b in self.ext_links]}

    @staticmethod
    def from_json(d):
        def dt(v):
            if isinstance(v, str) and len(v) >= 19 and v[4] == '-' and v[10] == 'T':
                return datetime.fromisoformat(v)
            return v
        return Scenario(d['sched'], d['balance'], dt(d['anchor']),
                        [(i, p, {k: dt(v) for k, v in a.items()}) for i, p, a in d['tasks']],
                        [tuple(x) for x in d['links']], ({k: v for k, v in d['cals']} if isinstance(d.get('cals'), list) else (d.get('cals') or {})),
                        d.get('default_estimate', 0), dt(d.get('clock')),
                        [(i, {k: dt(v) for k, v in a.items()}) for i, a in d.get('ext', [])],
                        [(tuple(a), tuple(b)) for a, b in d.get('ext_links', [])], d.get('layer', ''))

    def key(self):
        return repr(self.to_json())


class BuildRejected(Exception):
    """pjplan's own mutators rejected the structure (e.g. a direct dependency cycle): not an input."""


class _Handle:
    """A custom attribute value that cannot be copied or pickled (a connection, a lock, an open file)."""

    def __init__(self):
        import threading
        self.lock = threading.Lock()

    def __repr__(self):
        return '<handle>'


def _special_value(v):
    """Scenario attribute values '@handle' / '@generator' stand for objects that JSON cannot carry."""
    if v == '@handle':
        return _Handle()
    if v == '@generator':
        return (x for x in (1, 2, 3))
    return v


def build(sc):
    """Build the WBS through the public API. Returns (wbs, [task objects in sc order], [ext task objects])."""
    from pjplan import Task, WBS
    if sc.layer == 'L2n':
        # the WBS object itself is given a name and dates (attributes of the plan as a whole): they are no task
        w = WBS(name='plan', start=sc.anchor - 100 * DAY, end=sc.anchor + 300 * DAY, estimate=77, spent=5)
    else:
        w = WBS()
    objs = []
    for (tid, par, attrs) in sc.tasks:
        # custom attributes of several kinds: a text, and - on every second task - values that are falsy or None
        extra = {'owner': None, 'ticket': 0, 'note': ''} if len(objs) % 2 == 0 else {}
        attrs = {k: _special_value(v) for k, v in attrs.items()}
        objs.append(Task(tid, name='n%s' % (tid,), tag='g%s' % (tid,), **extra, **attrs))
    for t in objs:
        for k, v in list(vars(t).items()):
            if isinstance(v, str) and v.startswith('@task'):
                setattr(t, k, objs[int(v[5:])])  # a custom attribute that refers to another task of the plan
    try:
        for (tid, par, attrs), t in zip(sc.tasks, objs):
            if par is None:
                w.roots.append(t)
            else:
                objs[par].children.append(t)
        ext = []
        holder = None
        if sc.ext:
            if sc.layer == 'L6r':
                # the outside tasks start as members of this WBS, below a summary that is REMOVED from it after the links are made
                # (what is left of a cancelled work package: a dated task that others still wait for)
                holder = Task(900, name='holder')
                w.roots.append(holder)
            else:
                y = WBS()
            for (eid, attrs) in sc.ext:
                e = Task(eid, name='e%s' % eid, **attrs)
                if holder is not None:
                    holder.children.append(e)
                else:
                    y.roots.append(e)
                ext.append(e)
        for p, s in sc.links:
            objs[s].predecessors.append(objs[p])
        for a, b in sc.ext_links:
            pa = objs[a[1]] if a[0] == 'x' else ext[a[1]]
            pb = objs[b[1]] if b[0] == 'x' else ext[b[1]]
            pb.predecessors.append(pa)
        if holder is not None:
            if not w.remove(holder):
                raise BuildRejected('holder not removed')
    except RuntimeError as e:
        if isinstance(e, RecursionError):
            raise
        raise BuildRejected(str(e))
    if sc.layer == 'L1p':
        _poke(objs)
    return w, objs, ext


def _poke(objs):
    """Illegal assignments, each expected to be rejected and to change nothing: replace a task's dependency lists by a self-link,
    by its parent, by its first child, by one of its successors / predecessors (a cycle); make a task its own parent / child."""
    # a dependency is added and taken back again (by assigning the former list, by remove): afterwards it does not exist
    for y in objs:
        for x in objs:
            if x is y or x in list(y.predecessors):
                continue
            for undo in ('assign', 'remove'):
                former = list(y.predecessors)
                try:
                    y.predecessors.append(x)
                except RuntimeError as e:
                    if isinstance(e, RecursionError):
                        raise
                    break
                if undo == 'assign':
                    y.predecessors = former
                else:
                    y.predecessors.remove(x)
    for t in objs:
        bad = [t]
        if t.parent is not None:
            bad.append(t.parent)
        bad += list(t.children)[:1]
        for b in bad + list(t.successors)[:1]:
            try:
                t.predecessors = [b]
            except RuntimeError as e:
                if isinstance(e, RecursionError):
                    raise
        for b in bad + list(t.predecessors)[:1]:
            try:
                t.successors = [b]
            except RuntimeError as e:
                if isinstance(e, RecursionError):
                    raise
        for fn in (lambda: setattr(t, 'parent', t), lambda: setattr(t, 'children', [t])):
            try:
                fn()
            except RuntimeError as e:
                if isinstance(e, RecursionError):
                    raise


class Exec:
    __slots__ = ('sc', 'wbs', 'objs', 'ext', 'scheduler', 'status', 'result', 'error', 'clock_reads', 'clock_values',
                 'lookups', 'resources_in', 'lazy', 'now0')


# watchdog for one calc call, seconds (a calc of the checks' inputs takes milliseconds; see seams.time_limit)
CALC_WALL_LIMIT = 45
TIMEOUTS = []  # scenarios of this process whose calc hit the watchdog


def lookup_limit(n_tasks):
    return (n_tasks + 1) * 3 * 100000 + 1000


def calc_clock(sc):
    return sc.clock if sc.clock is not None else sc.anchor - 30 * DAY


def make_scheduler(sc, resources):
    """The scheduler object is constructed under a clock that is nine days EARLIER than the clock calc runs under:
    "the current day" of the properties is the day of the calc call, not the day the object was built."""
    from pjplan import ForwardScheduler, BackwardScheduler
    if sc.layer == 'LX' and resources:
        # the resources argument in its other forms: the constructor accepts any iterable today (it builds its table in one pass),
        # and a scheduler that silently forgets the supplied calendars for some of them plans against the wrong capacity
        form = len(sc.tasks) % 3
        if form == 2:
            resources = (r for r in list(resources))
        elif form == 0:
            resources = tuple(resources)
    if sc.layer == 'L1i':
        # no date given: the project starts / ends "now", i.e. at the clock value the constructor sees - the scenario's anchor
        seams.CLOCK.set_const(sc.anchor)
        if sc.balance and not resources and not sc.dflt:
            # the bare constructor: every argument left to its default
            return ForwardScheduler() if sc.sched == 'fwd' else BackwardScheduler()
        if sc.sched == 'fwd':
            return ForwardScheduler(resources=resources, balance_resources=sc.balance, default_estimate=sc.dflt)
        return BackwardScheduler(resources=resources, balance_resources=sc.balance, default_estimate=sc.dflt)
    seams.CLOCK.set_const(calc_clock(sc) - 9 * DAY)
    if sc.sched == 'fwd':
        return ForwardScheduler(start=sc.anchor, resources=resources, balance_resources=sc.balance,
                                default_estimate=sc.dflt)
    return BackwardScheduler(end=sc.anchor, resources=resources, balance_resources=sc.balance,
                             default_estimate=sc.dflt)


def make_resources(sc, chooser=None, lazy_horizon=6, count=True):
    """Resource objects for the scenario. With a chooser, every supplied resource gets a LazyCalendar."""
    from pjplan import Resource
    Counting, Lazy = _cls()
    res = []
    lazies = []
    for name, spec in sc.cals.items():
        if spec == 'lazy':
            cal = Lazy(chooser, lazy_horizon, 1 if sc.sched == 'fwd' else -1)
            lazies.append(cal)
            res.append(Resource(name, cal))
            continue
        cal = build_calendar(spec, sc.anchor)
        if cal is None:
            continue
        res.append(Resource(name, Counting(cal) if count else cal))
    return res, lazies


def execute(sc, chooser=None, clock_menu=None, prebuilt=None, scheduler=None, resources=None):
    """One execution: build, schedule under the virtual clock and lookup budget, capture the outcome."""
    ex = Exec()
    ex.sc = sc
    if prebuilt is None:
        ex.wbs, ex.objs, ex.ext = build(sc)
    else:
        ex.wbs, ex.objs, ex.ext = prebuilt
    ex.lazy = []
    if scheduler is None:
        if resources is None:
            resources, ex.lazy = make_resources(sc, chooser)
        ex.resources_in = resources
        scheduler = make_scheduler(sc, resources)
    ex.scheduler = scheduler
    if clock_menu is not None:
        seams.CLOCK.set_script(clock_menu, chooser, getattr(clock_menu, 'start_pos', 0))
        harness_now = clock_menu[getattr(clock_menu, 'start_pos', 0)]
    else:
        harness_now = calc_clock(sc)
        seams.CLOCK.set_const(harness_now)
    seams.BUDGET.reset(lookup_limit(len(sc.tasks)))
    ex.result = None
    ex.error = None
    try:
        with seams.time_limit(CALC_WALL_LIMIT):
            ex.result = scheduler.calc(ex.wbs)
        ex.status = 'ok'
    except seams.WallTimeout:
        ex.status = 'timeout'
        TIMEOUTS.append(sc.key()[:200])
    except seams.BudgetExceeded:
        ex.status = 'budget'
    except RecursionError as e:
        ex.status = 'exc'
        ex.error = e
    except Exception as e:  # noqa
        ex.status = 'exc'
        ex.error = e
    ex.clock_reads = seams.CLOCK.reads
    ex.clock_values = list(seams.CLOCK.values_read)
    # "now" at the time of the calc call: the first value calc read, or what it would have read
    ex.now0 = ex.clock_values[0] if ex.clock_values else harness_now
    ex.lookups = seams.BUDGET.count
    seams.BUDGET.limit = None
    for lz in ex.lazy:
        lz.frozen = True
    return ex


# ----------------------------------------------------------------------------------------------
# observation of a schedule

class TaskObs:
    __slots__ = ('id', 'start', 'end', 'estimate', 'spent', 'parent', 'children', 'preds', 'succs', 'milestone',
                 'resource', 'min_start', 'obj')


class _NamedDefault:
    """Stand-in for 'the default resource of this name' where the result lists none (see SchedObs.res_by_name)."""

    def __init__(self, name):
        self.name = name

    def get_available_units(self, date, task=None):
        return 8 if date.weekday() < 5 else 0


class SchedObs:
    """Everything the oracles read, taken once through public getters."""

    def __init__(self, ex):
        s = ex.result
        self.wbs = s.schedule
        self.by_id = {}
        self.order = []
        for t in s.schedule.tasks:
            o = TaskObs()
            o.obj = t
            o.id = t.id
            o.start = seams.plain(t.start)
            o.end = seams.plain(t.end)
            o.estimate = t.estimate
            o.spent = t.spent
            o.parent = t.parent.id if t.parent is not None else None
            o.children = [c.id for c in t.children]
            o.preds = [p.id for p in t.predecessors]
            o.succs = [p.id for p in t.successors]
            o.milestone = t.milestone
            o.resource = t.resource
            o.min_start = t.min_start
            self.by_id[t.id] = o
            self.order.append(t.id)
        self.member_objs = {id(o.obj) for o in self.by_id.values()}
        # predecessor ends, including external ones (by object)
        self.pred_ends = {}
        self.succ_starts = {}
        for o in self.by_id.values():
            self.pred_ends[o.id] = [(p.id, seams.plain(p.end), id(p) in self.member_objs) for p in o.obj.predecessors]
            self.succ_starts[o.id] = [(p.id, seams.plain(p.start), id(p) in self.member_objs) for p in o.obj.successors]
        self.resources = list(s.resources)
        self.rows = [(r.resource, seams.plain(r.date), r.task.id, r.units, r.task) for r in s.resource_usage.rows()]
        self.report = s.resource_usage
        self._cap = {}
        self._byname = {}
        self.supplied = getattr(ex, 'resources_in', None)
        # rows booked on resource objects that the result does not list (C03 reports that): for the other properties "the task's
        # resource" then is the resource of that NAME - the rows of all such objects of one name count as one resource's rows
        listed = {id(r) for r in self.resources}
        self.unlisted = {}
        if any(id(r[0]) not in listed for r in self.rows):
            rows = []
            for r in self.rows:
                if id(r[0]) not in listed:
                    canon = self.unlisted.setdefault(getattr(r[0], 'name', None), r[0])
                    r = (canon,) + tuple(r[1:])
                rows.append(r)
            self.rows = rows

    # derived notions (DESIGN 5.3)
    def leaves(self, tid):
        o = self.by_id[tid]
        if not o.children:
            return [tid]
        out = []
        for c in o.children:
            out.extend(self.leaves(c))
        return out

    def ancestors(self, tid):
        out = []
        p = self.by_id[tid].parent
        while p is not None:
            out.append(p)
            p = self.by_id[p].parent
        return out

    def res_by_name(self, name):
        found = [r for r in self.resources if r.name == name]
        if not found and name in self.unlisted:
            return [self.unlisted[name]]
        if not found and not any(getattr(r, 'name', None) == name for r in (self.supplied or [])):
            # no resource of that name anywhere (C03 reports that): a task's resource that nobody supplied is a Monday-Friday 8-unit
            # resource of its own, and what is booked on it is what the tasks NAMING it have booked, whatever object the rows sit on
            return [self._byname.setdefault(name, _NamedDefault(name))]
        return found

    def cap(self, res, day):
        k = (id(res), day)
        v = self._cap.get(k)
        if v is None:
            # the capacity is what the resource's CALENDAR says for the day now (C17 defines calendars; a resource adds "0 where the
            # calendar has no information"), not what the resource object answers: the resource is part of what is being checked
            cal = getattr(res, 'calendar', None)
            if cal is not None:
                v = cal.get_available_units(day)
                v = 0 if v is None else v
            else:
                v = res.get_available_units(day)
            self._cap[k] = v
        return v

    def rows_of(self, tid):
        return [r for r in self.rows if r[2] == tid]

    def booked(self, res, day, only_task=None):
        if type(res) is _NamedDefault:
            return sum(r[3] for r in self.rows if r[1] == day and r[2] in self.by_id and self.by_id[r[2]].resource == res.name
                       and (only_task is None or r[2] == only_task))
        return sum(r[3] for r in self.rows if r[0] is res and r[1] == day and (only_task is None or r[2] == only_task))

    def booked_before(self, idx):
        """Units of rows on the same (resource, day) that precede row idx in reservation order."""
        r = self.rows[idx]
        return sum(x[3] for x in self.rows[:idx] if x[0] is r[0] and x[1] == r[1])
