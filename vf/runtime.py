"""Shared runner plumbing: repo import, worker pool, accumulators, findings, evidence, exit codes.

Exit codes: 0 = property held on everything explored (KNOWN-FINDING lines allowed),
            1 = at least one VIOLATION line, 2 = harness error (never a verdict).
"""
import collections
import hashlib
import json
import multiprocessing
import os
import sys
import time
import traceback

VERIF = os.path.dirname(os.path.dirname(os.path.abspath(__file__)))
REPO = os.environ.get('VF_REPO', '/repo')
SRC = os.path.join(REPO, 'src')
# where evidence/ and replays/ are written; redirected when the checks are pointed at a seeded copy
OUT = os.environ.get('VF_OUT', VERIF)

MAX_EXAMPLES_PER_SIG = 2
MAX_SAMPLES = 6


class HarnessError(Exception):
    """Something is wrong with the harness, not with pjplan (exit 2)."""


def import_repo():
    """Put the working tree's src first on sys.path and make sure pjplan comes from there."""
    if SRC in sys.path:
        sys.path.remove(SRC)
    sys.path.insert(0, SRC)
    for m in list(sys.modules):
        if m == 'pjplan' or m.startswith('pjplan.'):
            f = getattr(sys.modules[m], '__file__', None)
            if f and not os.path.abspath(f).startswith(os.path.abspath(SRC)):
                raise HarnessError(f'pjplan already imported from {f}')
    import pjplan
    if not os.path.abspath(pjplan.__file__).startswith(os.path.abspath(SRC)):
        raise HarnessError(f'pjplan imported from {pjplan.__file__}, expected under {SRC}')
    return pjplan


def stable_hash(obj) -> int:
    """Process-independent 64-bit hash of a JSON-ish / tuple structure."""
    return int.from_bytes(hashlib.blake2b(repr(obj).encode('utf-8', 'backslashreplace'), digest_size=8).digest(), 'big')


class Acc:
    """Accumulator for one chunk of work; merged in a fixed order by the parent."""

    def __init__(self):
        self.counters = collections.Counter()
        self.distinct = set()
        self.outcomes = set()
        self.viol = {}  # (prop, sig) -> [count, [examples]]
        self.samples = []
        self.extra = {}  # free-form, merged by key: lists concatenated, numbers added

    def count(self, key, n=1):
        self.counters[key] += n

    def nontrivial(self, key):
        self.distinct.add(key if isinstance(key, int) else stable_hash(key))

    def outcome(self, key):
        self.outcomes.add(key if isinstance(key, int) else stable_hash(key))

    def sample(self, s):
        if len(self.samples) < MAX_SAMPLES:
            self.samples.append(s)

    def violation(self, prop, sig, message, case):
        ent = self.viol.setdefault((prop, sig), [0, []])
        ent[0] += 1
        if len(ent[1]) < MAX_EXAMPLES_PER_SIG:
            ent[1].append({'message': message, 'case': case})

    def merge(self, other: 'Acc'):
        self.counters.update(other.counters)
        self.distinct |= other.distinct
        self.outcomes |= other.outcomes
        for k, (n, ex) in other.viol.items():
            ent = self.viol.setdefault(k, [0, []])
            ent[0] += n
            for e in ex:
                if len(ent[1]) < MAX_EXAMPLES_PER_SIG:
                    ent[1].append(e)
        for s in other.samples:
            self.sample(s)
        for k, v in other.extra.items():
            if k not in self.extra:
                self.extra[k] = v
            elif isinstance(v, (int, float)):
                self.extra[k] += v
            elif isinstance(v, list):
                self.extra[k] = self.extra[k] + v
            elif isinstance(v, set):
                self.extra[k] = self.extra[k] | v
            elif isinstance(v, dict):
                d = dict(self.extra[k])
                for kk, vv in v.items():
                    d[kk] = d.get(kk, 0) + vv if isinstance(vv, (int, float)) else vv
                self.extra[k] = d


def n_workers():
    try:
        w = int(os.environ.get('VF_WORKERS', '0'))
    except ValueError:
        w = 0
    return w if w > 0 else (os.cpu_count() or 1)


_WORK_FN = None


CURRENT_PROP = None


def _raised_in_library(e):
    """Innermost traceback frame that lies in the library under test, or None."""
    tb = e.__traceback__
    hit = None
    while tb is not None:
        fn = os.path.abspath(tb.tb_frame.f_code.co_filename)
        if fn.startswith(os.path.abspath(SRC) + os.sep):
            hit = (os.path.relpath(fn, SRC), tb.tb_frame.f_code.co_name, tb.tb_lineno)
        tb = tb.tb_next
    return hit


def _call_chunk(chunk):
    try:
        return ('ok', _WORK_FN(chunk))
    except HarnessError as e:
        return ('err', ''.join(traceback.format_exception(type(e), e, e.__traceback__)))
    except BaseException as e:
        where = _raised_in_library(e) if isinstance(e, Exception) else None
        text = ''.join(traceback.format_exception(type(e), e, e.__traceback__))
        if where is not None and CURRENT_PROP:
            # an exception that escaped from pjplan's own code while the check exercised an input of the property's domain
            # (every deliberately illegal call is wrapped by the check itself): the property cannot hold there.
            # The rest of this chunk is lost; the verdict is a violation, not a harness error.
            acc = Acc()
            acc.violation(CURRENT_PROP, f'library-exception/{type(e).__name__}/{where[0]}:{where[1]}',
                          f'{type(e).__name__}: {e} raised in {where[0]}:{where[2]} ({where[1]}) and not handled by the library',
                          {'traceback': text[-1500:], 'chunk': repr(chunk)[:300]})
            acc.count('chunks_aborted_by_library_exception')
            return ('ok', acc)
        return ('err', text)


def pmap(fn, chunks, workers=None):
    """Run fn(chunk) -> Acc over chunks with a fork pool; yields results in chunk order."""
    global _WORK_FN
    chunks = list(chunks)
    workers = workers or n_workers()
    _WORK_FN = fn
    if workers <= 1 or len(chunks) <= 1:
        for c in chunks:
            st, r = _call_chunk(c)
            if st == 'err':
                raise HarnessError('worker failed:\n' + r)
            yield r
        return
    ctx = multiprocessing.get_context('fork')
    with ctx.Pool(min(workers, len(chunks))) as pool:
        for st, r in pool.imap(_call_chunk, chunks, chunksize=1):
            if st == 'err':
                pool.terminate()
                raise HarnessError('worker failed:\n' + r)
            yield r


def run_chunks(fn, chunks, acc=None, workers=None):
    acc = acc or Acc()
    for r in pmap(fn, chunks, workers):
        acc.merge(r)
    return acc


def split(items, n):
    """Deterministic round-robin split of a list into <= n non-empty chunks."""
    items = list(items)
    n = max(1, min(n, len(items)))
    return [items[i::n] for i in range(n)]


# ----------------------------------------------------------------------------------------------
# known findings

def load_known():
    p = os.path.join(VERIF, 'known_findings.json')
    if not os.path.exists(p):
        return []
    with open(p) as f:
        data = json.load(f)
    return [e for e in data.get('findings', []) if e.get('status') == 'known']


def match_known(known, prop, sig):
    """A finding is identified by property + signature (exact) or + signature_prefix (call site and failed clause)."""
    for e in known:
        if e['property'] != prop:
            continue
        if e.get('signature') == sig:
            return e
        pre = e.get('signature_prefix')
        if pre and sig.startswith(pre):
            return e
    return None


class Report:
    """Collects what a property run found and turns it into stdout lines, evidence and an exit code."""

    def __init__(self, prop, tier, seed, level):
        global CURRENT_PROP
        CURRENT_PROP = prop
        self.prop = prop
        self.tier = tier
        self.seed = seed
        self.level = level
        self.t0 = time.time()
        self.coverage = {}
        self.assumptions = []
        self.acc = Acc()

    def finish(self):
        known = load_known()
        n_viol = 0
        n_known = 0
        lines = []
        # VF_ALL_PROPS=1 (mutation screening only): report what the exploration saw for every property, not just this one
        own = {k: v for k, v in self.acc.viol.items() if k[0] == self.prop or os.environ.get('VF_ALL_PROPS')}
        known_hits = {}
        for (prop, sig), (count, examples) in sorted(own.items()):
            e = match_known(known, prop, sig)
            if e is not None and not os.environ.get('VF_ALL_PROPS'):
                key = e.get('signature') or e.get('signature_prefix')
                ent = known_hits.setdefault(key, [e, 0, 0])
                ent[1] += count
                ent[2] += 1
                continue
            n_viol += 1
            rdir = os.path.join(OUT, 'replays', prop)
            os.makedirs(rdir, exist_ok=True)
            path = os.path.join(rdir, hashlib.sha1(sig.encode()).hexdigest()[:12] + '.json')
            with open(path, 'w') as f:
                json.dump({'property': prop, 'signature': sig, 'count': count, 'examples': examples},
                          f, indent=1, default=str)
            if n_viol <= 25:
                lines.append(f"VIOLATION property={prop} replay={path}")
                lines.append(f"  signature={sig} count={count} first: {examples[0]['message']}")
        for key, (e, cnt, nsig) in sorted(known_hits.items()):
            n_known += 1
            lines.append(f"KNOWN-FINDING: property={self.prop} {key} ({cnt} cases, {nsig} signatures): {e.get('what', '')}")
        if n_viol > 25:
            lines.append(f"  ... {n_viol - 25} further violation signatures not listed (replay files written)")
        wall = time.time() - self.t0
        cov = dict(self.coverage)
        cov.setdefault('samples', self.acc.samples[:MAX_SAMPLES])
        cov['counters'] = {k: v for k, v in sorted(self.acc.counters.items())}
        cov['violation_signatures'] = n_viol
        cov['known_finding_signatures'] = n_known
        cov['workers'] = n_workers()
        ev = {
            'property_id': self.prop, 'tier': self.tier, 'seed': self.seed, 'level': self.level,
            'coverage': cov, 'assumptions': self.assumptions, 'wall_s': round(wall, 2),
            'violations': n_viol,
        }
        os.makedirs(os.path.join(OUT, 'evidence'), exist_ok=True)
        with open(os.path.join(OUT, 'evidence', f'{self.prop}.json'), 'w') as f:
            json.dump(ev, f, indent=1, default=str)
        for ln in lines:
            print(ln)
        summ = {k: cov[k] for k in ('states', 'transitions', 'evaluations', 'distinct_nontrivial', 'exhaustive') if k in cov}
        print(f"{self.prop} tier={self.tier} {summ} violations={n_viol} known={n_known} wall={wall:.1f}s")
        return 1 if n_viol else 0
