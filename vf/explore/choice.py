"""Engine B: deviation-bounded stateless choice-tree explorer (CHESS style).

The code under test calls chooser.choose(kind, n); the explorer replays a prefix of decisions,
takes alternative 0 (the default answer) at every later point, and afterwards schedules every
single-deviation extension whose number of non-default decisions stays within the bound."""
from .. import runtime


class Chooser:
    def __init__(self, prefix=()):
        self.prefix = tuple(prefix)
        self.trace = []  # (kind, n, chosen)

    def choose(self, kind, n):
        i = len(self.trace)
        c = self.prefix[i] if i < len(self.prefix) else 0
        if c >= n:
            raise runtime.HarnessError(f'choice replay diverged: point {i} kind={kind} has {n} alternatives, prefix wants {c}')
        self.trace.append((kind, n, c))
        return c

    def choices(self):
        return tuple(c for _, _, c in self.trace)


def explore(run, bound, max_executions=None):
    """run(chooser) -> result.  Yields (choices, trace, result) for every execution with at most
    `bound` non-default decisions.  Each execution is run exactly once."""
    stack = [()]
    n = 0
    while stack:
        prefix = stack.pop()
        ch = Chooser(prefix)
        result = run(ch)
        n += 1
        if len(ch.trace) < len(prefix):
            raise runtime.HarnessError('choice replay diverged: execution ended before the prefix was consumed')
        yield ch.choices(), ch.trace, result
        if max_executions is not None and n >= max_executions:
            raise runtime.HarnessError('choice tree larger than the declared cap')
        devs = sum(1 for c in prefix if c)
        if devs >= bound:
            continue
        choices = ch.choices()
        for i in range(len(prefix), len(ch.trace)):
            kind, k, _ = ch.trace[i]
            for alt in range(1, k):
                stack.append(choices[:i] + (alt,))
