"""Scale probes for the graph properties: a few inputs that are LARGER than the enumerated universes (deep chains, wide lists, a
tree of more than a thousand tasks, unusual id types), each run through the operations whose correctness could depend on size
(guards that walk the hierarchy, ordering operations on long lists, bulk adoption). They complement the exhaustive small-scope
search: the inputs are fixed, every operation on them is checked against the same clauses (C01 forest / links, C05 ids and lookup,
C11 owner, C15 rejected calls change nothing, C16 documented order). Found necessary by seeded changes with bounded walks
("at most 16 / 64 levels", "at most 1000 nodes", "a set of small ints iterates in order")."""
from pjplan import Task, WBS


def _snapshot(tasks, wbss):
    return (tuple((id(t.parent) if t.parent is not None else None, tuple(id(c) for c in t.children), tuple(id(p) for p in t.predecessors),
                   tuple(id(p) for p in t.successors), id(t.wbs) if t.wbs is not None else None) for t in tasks),
            tuple(tuple(id(r) for r in w.roots) for w in wbss), tuple(tuple(id(x) for x in w.tasks) for w in wbss))


def _forest_ok(tasks, wbss, acc, what):
    """C01 / C11 on an arbitrary size: every task listed once under the parent it reports, no task its own ancestor (bounded walk),
    owner == reachability. Each clause is reported once per probe (they belong to different properties)."""
    reach = {}
    for w in wbss:
        try:
            members = list(w.tasks)
        except RecursionError:
            acc.violation('C05', 'probe/wbs-tasks-does-not-terminate', f'{what}: WBS.tasks recurses without bound', {'probe': what})
            members = []
        for t in members:
            reach.setdefault(id(t), []).append(w)
    done = set()
    for t in tasks:
        p = t.parent
        if 'list' not in done and p is not None and sum(1 for c in p.children if c is t) != 1:
            acc.violation('C01', 'probe/forest-children-parent-mismatch', f'{what}: task {t.id} reports parent {p.id} but is listed there '
                          f'{sum(1 for c in p.children if c is t)} times', {'probe': what})
            done.add('list')
        if 'cycle' not in done:
            seen = 0
            q = t
            while q.parent is not None:
                q = q.parent
                seen += 1
                if q is t or seen > len(tasks) + 2:
                    acc.violation('C01', 'probe/forest-ancestor-cycle', f'{what}: task {t.id} is its own ancestor', {'probe': what})
                    done.add('cycle')
                    break
        owners = reach.get(id(t), [])
        if 'owner' not in done and ((t.wbs is None) != (not owners) or (owners and (len(owners) != 1 or owners[0] is not t.wbs))):
            acc.violation('C11', 'probe/owner-mismatch', f'{what}: task {t.id} reports owner {"a WBS" if t.wbs is not None else None} but is '
                          f'reachable from {len(owners)} WBS', {'probe': what})
            done.add('owner')
    return not done


def _rejected_cleanly(fn, tasks, wbss, acc, what):
    """fn must raise RuntimeError and leave everything as it was."""
    before = _snapshot(tasks, wbss)
    acc.count('probe_calls')
    try:
        fn()
    except RuntimeError as e:
        if isinstance(e, RecursionError):
            acc.violation('C01', 'probe/recursion-error', f'{what}: RecursionError', {'probe': what})
            return
        if _snapshot(tasks, wbss) != before:
            acc.violation('C15', 'probe/state-changed-by-raising-call', f'{what}: raised {e!r} but changed the graph', {'probe': what})
        return
    except Exception as e:  # noqa
        acc.violation('C15', f'probe/raised-{type(e).__name__}', f'{what}: raised {type(e).__name__}: {e}', {'probe': what})
        return
    _forest_ok(tasks, wbss, acc, what + ' (accepted)')


def _iadd_second(ts):
    ts[-1].children += [ts[1]]


def deep_chains(acc):
    for depth in (20, 70, 140):
        for in_wbs in (True, False):
            def fresh():
                ts = [Task(i, name='t%d' % i) for i in range(depth)]
                w = WBS()
                if in_wbs:
                    w.roots.append(ts[0])
                for a, b in zip(ts, ts[1:]):
                    a.children.append(b)
                return ts, w
            for name, op in (('top.parent = bottom', lambda ts: setattr(ts[0], 'parent', ts[-1])),
                             ('bottom.children = [top]', lambda ts: setattr(ts[-1], 'children', [ts[0]])),
                             ('bottom.children.append(top)', lambda ts: ts[-1].children.append(ts[0])),
                             ('bottom // top', lambda ts: ts[-1] // ts[0]),
                             ('bottom.children += [second]', _iadd_second),
                             ('top.predecessors = [bottom]', lambda ts: setattr(ts[0], 'predecessors', [ts[-1]])),
                             ('bottom.successors = [top]', lambda ts: setattr(ts[-1], 'successors', [ts[0]]))):
                ts, w = fresh()
                _rejected_cleanly(lambda: op(ts), ts, [w], acc, f'chain of {depth} nested tasks ({"in a WBS" if in_wbs else "detached"}): {name}')
            # legal operations on the deep chain
            ts, w = fresh()
            what = f'chain of {depth} nested tasks'
            if len(list(ts[-1].all_parents)) != depth - 1 or len(list(ts[0].all_children)) != depth - 1:
                acc.violation('C01', 'probe/closure-differs', f'{what}: all_parents of the deepest task has {len(list(ts[-1].all_parents))} entries, '
                              f'all_children of the top has {len(list(ts[0].all_children))}', {'probe': what})
            if in_wbs:
                if not w.remove(ts[5]):
                    acc.violation('C11', 'probe/remove-returned-false', f'{what}: WBS.remove of a member at level 5', {'probe': what})
                _forest_ok(ts, [w], acc, what + ': after removing the task at level 5')
                w2 = WBS()
                w2.roots.append(ts[5])
                _forest_ok(ts, [w, w2], acc, what + ': removed subtree attached to another WBS')
            acc.count('probe_cases')


def wide_lists(acc):
    for n in (9, 12, 40):
        for holder in ('task', 'wbs'):
            def fresh():
                kids = [Task(i + 1, name='k%02d' % (i % 5), tag=i) for i in range(n)]
                w = WBS()
                if holder == 'task':
                    p = Task(1000, name='p')
                    w.roots.append(p)
                    p.children = kids
                    return kids, p.children, w
                w.roots = kids
                return kids, w.roots, w
            kids, lst, w = fresh()
            what = f'{n} siblings ({holder})'
            # reorder: the listed ids first, the others keep their relative order
            for listed in ([6, 5, 4, 3, 2, 1], [n, 1], list(range(n, n - 7, -1)), [3]):
                kids, lst, w = fresh()
                lst.reorder(listed)
                exp = listed + [k.id for k in kids if k.id not in listed]
                got = [k.id for k in (lst if holder == 'wbs' else kids[0].parent.children)]
                acc.count('probe_calls')
                if got != exp:
                    acc.violation('C16', 'probe/reorder-order', f'{what}: reorder({listed}) gave {got}, documented {exp}', {'probe': what})
            # stable sort, both directions
            for rev in (False, True):
                kids, lst, w = fresh()
                lst.sort('name', reverse=rev)
                exp = [k.id for k in sorted(kids, key=lambda k: k.name, reverse=rev)]
                got = [k.id for k in (w.roots if holder == 'wbs' else kids[0].parent.children)]
                acc.count('probe_calls')
                if got != exp:
                    acc.violation('C16', 'probe/sort-order', f'{what}: sort(name, reverse={rev}) gave {got}, stable order is {exp}', {'probe': what})
            # move: one task before / after an anchor far away
            for frm, anchor, where in ((0, n - 2, 'after'), (n - 1, 1, 'before'), (n // 2, n - 1, 'after'), (n - 1, 0, 'before')):
                kids, lst, w = fresh()
                if where == 'after':
                    lst.move(kids[frm], after=kids[anchor])
                else:
                    lst.move(kids[frm], before=kids[anchor])
                rest = [k for k in kids if k is not kids[frm]]
                i = rest.index(kids[anchor])
                exp = rest[:i + (1 if where == 'after' else 0)] + [kids[frm]] + rest[i + (1 if where == 'after' else 0):]
                got = [k.id for k in (w.roots if holder == 'wbs' else kids[0].parent.children)]
                acc.count('probe_calls')
                if got != [k.id for k in exp]:
                    acc.violation('C16', 'probe/move-order', f'{what}: move(k{frm}, {where}=k{anchor}) gave {got}', {'probe': what})
            _forest_ok(kids, [w], acc, what + ' after ordering operations')
            acc.count('probe_cases')


def big_tree(acc):
    """A WBS of ~600 tasks adopts two detached 300-task branches and one small task in ONE children assignment (legal: accepted,
    or rejected without any change)."""
    w = WBS()
    hub = Task('hub', name='hub')
    w.roots.append(hub)
    x, y = Task('x'), Task('y')
    hub.children = [x, y]
    n = 0
    cur = []
    for b in range(20):
        top = Task('m%d' % b)
        w.roots.append(top)
        for k in range(29):
            t = Task('m%d_%d' % (b, k))
            top.children.append(t)
            n += 1

    def branch(tag):
        top = Task(tag)
        allt = [top]
        for b in range(10):
            s = Task('%s_%d' % (tag, b))
            top.children.append(s)
            allt.append(s)
            for k in range(29):
                t = Task('%s_%d_%d' % (tag, b, k))
                s.children.append(t)
                allt.append(t)
        return top, allt
    a, alla = branch('a')
    b_, allb = branch('b')
    c = Task('c')
    tasks = list(w.tasks) + alla + allb + [c]
    before = _snapshot(tasks, [w])
    what = 'WBS of ~600 tasks: hub.children = [a (300 tasks), b (300 tasks), c]'
    acc.count('probe_calls')
    try:
        hub.children = [a, b_, c]
    except RuntimeError as e:
        if _snapshot(tasks, [w]) != before:
            acc.violation('C15', 'probe/state-changed-by-raising-call', f'{what}: raised {e!r} but changed the graph', {'probe': what})
        return
    _forest_ok(tasks, [w], acc, what)
    if [t.id for t in hub.children] != ['a', 'b', 'c'] or x.wbs is not None or a.wbs is not w:
        acc.violation('C16', 'probe/children-assignment', f'{what}: children {[t.id for t in hub.children][:5]}, x.wbs {x.wbs}', {'probe': what})
    acc.count('probe_cases')


def unusual_ids(acc):
    """Lookup by id is exact for every hashable id type: tuples (also tuples of member ids), strings that look like numbers,
    None-like and negative values."""
    ids = [(1, 2), 1, 2, '1', (1,), -1, 'end', 0.5, frozenset({1, 2})]
    w = WBS()
    ts = [Task(i, name=repr(i)) for i in ids]
    w.roots.append(ts[0])
    for t in ts[1:4]:
        w.roots.append(t)
    for t in ts[4:]:
        ts[1].children.append(t)
    for t in ts:
        acc.count('probe_calls')
        try:
            got = w[t.id]
        except Exception as e:  # noqa
            acc.violation('C05', 'probe/lookup-raised', f'W[{t.id!r}] raised {type(e).__name__}: {e} although a member has that id', {'id': repr(t.id)})
            continue
        if got is not t:
            acc.violation('C05', 'probe/lookup-wrong-task', f'W[{t.id!r}] returned {getattr(got, "id", got)!r}', {'id': repr(t.id)})
    for absent in ((2, 1), (1, 2, 3), '2', 3, (), 'x', -2):
        acc.count('probe_calls')
        try:
            got = w[absent]
            acc.violation('C05', 'probe/lookup-absent-returned', f'W[{absent!r}] returned {got!r} although no member has that id', {'id': repr(absent)})
        except RuntimeError as e:
            if isinstance(e, RecursionError):
                acc.violation('C05', 'probe/lookup-absent-recursion', f'W[{absent!r}] ended in RecursionError', {'id': repr(absent)})
        except Exception as e:  # noqa
            acc.violation('C05', 'probe/lookup-absent-wrong-exception', f'W[{absent!r}] raised {type(e).__name__}, not RuntimeError', {'id': repr(absent)})
    # a second task with an id already used (each of the unusual types) is refused
    for t in ts:
        acc.count('probe_calls')
        dup = Task(t.id, name='dup')
        try:
            w.roots.append(dup)
            acc.violation('C05', 'probe/duplicate-id-accepted', f'a second task with id {t.id!r} was accepted', {'id': repr(t.id)})
            w.remove(dup)
        except RuntimeError:
            pass
    acc.count('probe_cases')


def run_all(acc):
    deep_chains(acc)
    wide_lists(acc)
    big_tree(acc)
    unusual_ids(acc)
