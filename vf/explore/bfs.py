"""Engine A: level-synchronous explicit-state BFS over the real mutation API, with the
reference semantics run in lock-step on every transition."""
import os
import sys
import time

from .. import runtime, seams
from ..graphmodel import core, ops as O

UNIVERSES = {
    #  name: (ids, n_wbs, names, links_only, ctor)
    'U2': ((0, 1), 1, ('b', 'a'), False, False),
    # ids: a falsy one, and two that print alike but are different values (1 and '1')
    'U3': ((0, 1, '1'), 1, ('b', 'a', 'b'), False, False),
    'U3d': ((0, 2, 0), 2, ('b', 'a', 'c'), False, False),
    'U4': ((0, 1, 2, 3), 1, ('b', 'a', 'b', 'a'), False, False),
    'U4d': ((0, 2, 0, 2), 2, ('b', 'a', 'c', 'a'), False, False),
    'U4l': ((2, 0, 3, 0), 0, ('b', 'a', 'b', 'a'), True, False),
    'U3c': ((0, 2, 0), 1, ('b', 'a', 'c'), False, True),
    'U3x': ((0, 1, '1', 4), 2, ('b', 'a', 'b', 'e'), False, False),
    'U3xd': ((0, 1, 2, 0), 2, ('b', 'a', 'b', 'e'), False, False),
    'U2x': ((0, 1, 4), 2, ('b', 'a', 'e'), False, False),
    'U3dq': ((0, 2, 0), 2, ('b', 'a', 'c'), False, False),
    # look-alike pairs: tasks 2, 3 equal tasks 0, 1 in id, name and attribute values (two plans from one template)
    'U4q': ((0, 2, 0, 2), 2, ('b', 'a', 'b', 'a'), False, False),
    # two-phase universes: structure alphabet to closure, then the attach/full alphabet one step from every state
    'U4e': ((1, 2, 0, 0), 1, ('b', 'a', 'b', 'c'), False, False),
    'U4s': ((1, 2, 3, 4), 2, ('b', 'a', 'b', 'a'), False, False),
    'U4o': ((0, 1, 2, 3), 1, ('b', 'a', 'b', 'a'), False, False),
    'U5': ((0, 1, 2, 3, 4), 1, ('b', 'a', 'b', 'a', 'c'), False, False),
}

ATTACH_FAMILIES = {'parent', 'list=', 'list+=', '//', '//1', 'append', 'list.parent=', 'W.tasks.parent=', 'Task()', 'list=view', 'list+=view',
                   'list=iter'}

_U = None
_OPS = None
_SEEN = None
_CFG = None


def make_universe(name):
    ids, m, names, links_only, ctor = UNIVERSES[name]
    return core.Universe(name, ids, m, names, links_only=links_only, ctor=ctor,
                         alphabet='reach' if name in ('U3x', 'U3xd', 'U2x') else 'attach' if name == 'U3dq' else
                         'structure' if name in ('U4e', 'U4s', 'U4o') else 'full', twin=(name == 'U4q'))


def _dup_ids_abs(U, a):
    groups = {}
    for i in range(a.n):
        top = ([i] + a.ancestors(i))[-1]
        g = None
        for k in range(a.m):
            if top in a.roots[k]:
                g = ('W', k)
        if g is None:
            g = ('T', top)
        groups.setdefault(g, []).append(U.ids[i])
    return any(len(v) != len(set(v)) for v in groups.values())


def _pristine(a, x):
    return (a.par[x] is None and a.own[x] is None and not a.ch[x] and not a.pred[x] and not a.succ[x]
            and all(x not in r for r in a.roots)
            and all(x not in a.pred[j] and x not in a.succ[j] and x not in a.ch[j] for j in range(a.n)))


def _free_root(a, y):
    return a.par[y] is None and a.own[y] is None and all(y not in r for r in a.roots) \
        and all(y not in a.ch[j] for j in range(a.n))


CHASE_SAFE = {'forest-children-parent-mismatch', 'forest-child-listed-as-root', 'forest-root-listed-twice', 'links-asymmetric',
              'links-ancestor-descendant', 'links-self', 'links-cycle'}


class StateInfo:
    __slots__ = ('viol', 'duplinks', 'wellformed', 'expandable', 'chaseable')


def check_state(U, enc, obs, cache):
    """State invariants for the *live* state (U must currently be in state enc)."""
    si = cache.get(enc)
    if si is not None:
        return si
    si = StateInfo()
    v = core.state_violations(U, obs)
    si.wellformed = not v
    # states that break only ownership / id-uniqueness clauses (C11, C05) still have terminating getters and are
    # expanded, so that later consequences are attributed to the property they break; C01-broken states are not
    si.expandable = not any(p == 'C01' for p, _, _ in v)
    # C01-broken states in which every getter still terminates (a task listed twice / under another parent than it reports, a
    # one-sided link) are not expanded in the search proper, but what the API allows NEXT from them is followed for two steps
    # (bfs._chase): the later damage often belongs to another property (an unnoticed duplicate id, an owner that lies)
    si.chaseable = (not si.expandable) and all(c in CHASE_SAFE for p, c, _ in v if p == 'C01') and not core.obs_has_zombie(obs)
    si.duplinks = (not core.obs_has_zombie(obs)) and core.has_duplicate_links(obs)
    if si.wellformed:
        v = v + core.getter_violations(U, obs)
    si.viol = v
    cache[enc] = si
    return si


def run_transition(U, enc, pre_obs, pre_abs, op, acc, hist, cache, obs_cache, pre_ok=True, facade=None, restore=True):
    """Execute one transition from state enc; report violations into acc; return (post_enc, StateInfo) or None."""
    if restore:
        U.restore(enc)
    fam = op[0] if facade is None else 'held:' + op[0]
    exc = None
    ret = None
    try:
        ret = O.apply(U, op, facade=facade)
    except RecursionError as e:
        exc = e
    except Exception as e:  # noqa
        exc = e
    post_enc = U.encode()
    attrs_changed = U.attrs_changed
    post_obs = obs_cache.get(post_enc, obs_cache)
    if post_obs is obs_cache:
        # the observation is a pure function of the concrete state, so it is memoised per state
        try:
            post_obs = U.observe()
        except RecursionError:
            post_obs = None
        obs_cache[post_enc] = post_obs
    acc.count('transitions')
    acc.count(('rejected:' if exc is not None else 'accepted:') + fam)
    rel = None

    def sig(clause):
        nonlocal rel
        if rel is None:
            rel = O.argrel(U, pre_abs, op)
        return f'{fam}/{clause}/{rel}'

    def case(extra=None):
        d = {'universe': U.name, 'history': [list(h) for h in hist], 'op': list(op),
             'readable_history': [O.describe(h) for h in hist], 'readable_op': O.describe(op),
             'outcome': ('raised ' + type(exc).__name__ + ': ' + str(exc)[:120]) if exc is not None else 'returned'}
        if extra:
            d.update(extra)
        return d

    if post_obs is None:
        acc.violation('C01', sig('observation-recursion'), 'public getters recurse without bound after ' + O.describe(op), case())
        return None
    zombie = core.obs_has_zombie(post_obs)
    attrs = U.attrs0
    if attrs_changed and not zombie:
        attrs = U.observe_attrs()
    changed = (post_obs != pre_obs) or attrs != U.attrs0
    # ---- C15 ----------------------------------------------------------------------------
    if exc is not None:
        multi = False
        if op[0] in ('list=', 'list+=', '//', 'move_before', 'move_after', 'pred=', 'pred+=', 'succ=', 'succ+=') \
                and len(op[2]) >= 2:
            multi = True
        acc.count('c15_premise_raise')
        if multi:
            acc.count('c15_premise_raise_multi_element_arg')
        if changed or zombie:
            acc.violation('C15', sig('state-changed-by-raising-call'),
                          f'{O.describe(op)} raised {type(exc).__name__} but changed the observable state',
                          case({'pre': list(map(list, pre_obs[0])), 'post': list(map(list, post_obs[0])),
                                'pre_roots': pre_obs[1], 'post_roots': post_obs[1]}))
        elif post_enc != enc:
            acc.count('hidden_state_changed_by_raising_call')
    # ---- state invariants (C01 / C05 / C11) -------------------------------------------------
    si = check_state(U, post_enc, post_obs, cache)
    if changed or post_enc != enc:
        for (prop, clause, detail) in si.viol:
            acc.violation(prop, sig(clause), f'after {O.describe(op)}: {detail}', case({'detail': detail}))
    # ---- reference semantics ----------------------------------------------------------------
    # the reference semantics is defined on well-formed pre-states only
    eff, exp_ret = O.effect(U, pre_abs, op) if pre_ok else (O.SKIP, None)
    if exc is None:
        if changed:
            acc.count('accepted_changing:' + fam)
            acc.count('nontrivial_accepted_changing')
        if eff is not O.SKIP and not zombie:
            acc.count('c16_checked')
            post_abs = core.abstract(post_obs, U.n, U.m)
            if not any(post_abs == b for b in eff):
                acc.violation('C16', sig('effect-differs'),
                              f'{O.describe(op)} returned but the state is not the documented effect',
                              case({'pre': pre_abs.describe(), 'post': post_abs.describe(),
                                    'admissible': [b.describe() for b in eff[:3]]}))
            elif attrs != U.attrs0:
                acc.violation('C16', sig('attributes-changed'), f'{O.describe(op)} changed task/WBS attributes', case())
            if exp_ret is not None and ret != exp_ret:
                acc.violation('C16', sig('return-value'),
                              f'{O.describe(op)} returned {ret}, documented {exp_ret}', case())
    else:
        acc.count('nontrivial_rejected')
        if eff is not O.SKIP and eff and op[0] in ATTACH_FAMILIES | {'insert'}:
            if op[0] != 'insert' or 0 <= op[2] <= len(O._lst(pre_abs, op[1])):
                if all(_dup_ids_abs(U, b) for b in eff):
                    acc.count('c05_premise_would_duplicate_id')
                    if not isinstance(exc, RuntimeError) or isinstance(exc, RecursionError):
                        acc.violation('C05', sig('duplicate-id-rejected-with-wrong-exception'),
                                      f'{O.describe(op)} would duplicate an id and raised {type(exc).__name__}, not RuntimeError',
                                      case())
        # C11 (c): re-attachment of a free detached root (never owned, or removed from a WBS) must be accepted - at root level of a
        # WBS or below one of its member tasks - unless an id of the subtree is already used in that WBS or a task of the subtree
        # has a dependency link with the new parent or one of its ancestors (the two documented reasons for refusing an adoption)
        tgt = None
        if pre_ok:
            if op[0] in ('//1', 'append'):
                tgt = (op[1], op[2])
            elif op[0] == 'parent' and op[2] is not None:
                tgt = (('T', op[2]), op[1])
            elif op[0] == 'insert' and 0 <= op[2] <= len(O._lst(pre_abs, op[1])):
                tgt = (op[1], op[3])
        if pre_ok and op[0] in ('list=', 'list+=', '//', 'list=iter') and len(op[2]) >= 1:
            # the same for a LIST of detached tasks (a task may be named twice, or together with one of its own descendants -
            # what remove_all returns when a summary and its child both matched)
            c, L = op[1], list(op[2])
            k = c[1] if c[0] == 'W' else pre_abs.own[c[1]]
            line = [] if c[0] == 'W' else [c[1]] + pre_abs.ancestors(c[1])
            ok = k is not None
            union = set()
            for y in L:
                anc = pre_abs.ancestors(y)
                if not (_free_root(pre_abs, y) or (any(z in L for z in anc) and _free_root(pre_abs, ([y] + anc)[-1]))):
                    ok = False
                    break
                union |= set(pre_abs.subtree(y))
            if ok and not (set(line) & union):
                mem_ids = {U.ids[v] for v in pre_abs.members(k)}
                sub_ids = [U.ids[v] for v in sorted(union)]
                linked = any((pre_abs.pred[v] | pre_abs.succ[v]) & set(line) for v in union)
                if not (mem_ids & set(sub_ids)) and len(set(sub_ids)) == len(sub_ids) and not linked:
                    acc.count('c11_premise_free_root_attach')
                    acc.violation('C11', sig('free-root-attach-rejected'),
                                  f'{O.describe(op)} rejected ({type(exc).__name__}: {str(exc)[:80]}) although every listed task is detached, '
                                  f'their ids are disjoint from W{k} and none is linked to its new ancestors', case())
        if tgt is not None and _free_root(pre_abs, tgt[1]):
            c, y = tgt
            sub = pre_abs.subtree(y)
            k = c[1] if c[0] == 'W' else pre_abs.own[c[1]]
            line = [] if c[0] == 'W' else [c[1]] + pre_abs.ancestors(c[1])
            if k is not None and not (set(line) & set(sub)):
                mem_ids = {U.ids[v] for v in pre_abs.members(k)}
                sub_ids = [U.ids[v] for v in sub]
                linked = any((pre_abs.pred[v] | pre_abs.succ[v]) & set(line) for v in sub)
                if not (mem_ids & set(sub_ids)) and len(set(sub_ids)) == len(sub_ids) and not linked:
                    acc.count('c11_premise_free_root_attach')
                    acc.violation('C11', sig('free-root-attach-rejected'),
                                  f'{O.describe(op)} rejected ({type(exc).__name__}: {str(exc)[:80]}) although t{y} is a detached root with ids '
                                  f'disjoint from W{k} and without links to its new ancestors', case())
    if exc is None and pre_ok and ((op[0] in ('//1', 'append') and _free_root(pre_abs, op[2])) or
                                   (op[0] == 'parent' and op[2] is not None and _free_root(pre_abs, op[1]))):
        acc.count('c11_premise_free_root_attach')
    return post_enc, si


def _expand_chunk(chunk):
    U, ops, seen, cfg = _U, _OPS, _SEEN, _CFG
    acc = runtime.Acc()
    cache = {}
    obs_cache = {}
    new = {}
    chase = []
    old_limit = sys.getrecursionlimit()
    sys.setrecursionlimit(cfg.get('reclimit', 400))
    try:
        for enc, hist in chunk:
            U.restore(enc)
            # self-check of snapshot/restore - before anything is read through the public getters: reading may legitimately fill
            # caches inside the library (hidden state), which is no fault of the snapshot
            if U.encode() != enc:
                raise runtime.HarnessError('restore/encode round trip failed')
            pre_obs = U.observe()
            pre_abs = core.abstract(pre_obs, U.n, U.m)
            pre_ok = not core.state_violations(U, pre_obs)
            for op in ops:
                if op[0] == 'Task()' and not _pristine(pre_abs, op[1]):
                    continue
                try:
                    # watchdog: one mutator call on <= 5 tasks takes microseconds; the limit is only reached by a call that spins
                    with seams.time_limit(60):
                        res = run_transition(U, enc, pre_obs, pre_abs, op, acc, hist, cache, obs_cache, pre_ok)
                except seams.WallTimeout:
                    acc.violation(runtime.CURRENT_PROP or 'C01', f'{op[0]}/operation-does-not-terminate/-',
                                  f'{O.describe(op)} was still running after 60 s',
                                  {'universe': U.name, 'readable_history': [O.describe(h) for h in hist], 'op': O.describe(op)})
                    break
                if res is None:
                    continue
                post_enc, si = res
                if post_enc == enc or post_enc in seen or post_enc in new:
                    continue
                if not si.expandable:
                    acc.count('pruned_illformed_successors')
                    new[post_enc] = None
                    if si.chaseable:
                        chase.append((post_enc, hist + (op,)))
                    continue
                if not si.wellformed:
                    acc.count('expanded_states_breaking_only_C05_or_C11')
                    chase.append((post_enc, hist + (op,)))
                if si.duplinks:
                    acc.count('pruned_duplicate_link_states')
                    new[post_enc] = None
                    continue
                ml = cfg.get('max_links')
                if ml is not None and sum(len(t[2]) for t in obs_cache[post_enc][0]) > ml:
                    acc.count('pruned_link_bound')
                    new[post_enc] = None
                    continue
                new[post_enc] = hist + (op,)
            # reading is an operation too: a library that memoises what its getters return has hidden state that only a read fills,
            # and 'read, change, read again' is a different history from 'change, read'. Where a read leaves the snapshot unchanged
            # (no such state - the case on the unchanged tree) there is nothing to do; where it changes it, every operation is run
            # once more from the state as it is after reading. These successors are checked but not expanded further: hidden state
            # multiplies the state space without bound, one step of it is what a single stale cache needs to show.
            U.restore(enc)
            core.read_all(U)
            warm = U.encode()
            if warm != enc:
                acc.count('states_where_reading_changes_hidden_state')
                whist = hist + (('read',),)
                for op in ops:
                    if op[0] == 'Task()':
                        continue
                    try:
                        with seams.time_limit(60):
                            run_transition(U, warm, pre_obs, pre_abs, op, acc, whist, cache, obs_cache, pre_ok)
                        acc.count('transitions_after_reading')
                    except seams.WallTimeout:
                        acc.violation(runtime.CURRENT_PROP or 'C01', f'{op[0]}/operation-does-not-terminate/-',
                                      f'{O.describe(op)} was still running after 60 s',
                                      {'universe': U.name, 'readable_history': [O.describe(h) for h in whist], 'op': O.describe(op)})
                        break
    finally:
        sys.setrecursionlimit(old_limit)
    acc.extra['new'] = [(k, v) for k, v in new.items()]
    acc.extra['chase'] = chase
    return acc


FACADE_FAMS = {'append', 'remove', 'insert', 'move_before', 'move_after', 'move_none', 'move_both', 'sort', 'sort_bad', 'reorder', 'reorder_iter',
               'remove_all_id', 'remove_all_fn', 'list<<', 'list>>', 'list.parent='}
LINK_FACADE_SUFFIXES = ('.append', '.remove', '.remove_all_id')


def _held_chunk(chunk):
    """Held-facade transitions: a list facade (x.children, W.roots, x.predecessors, x.successors) is taken in state S, another
    operation runs, then a mutator is called through the facade taken earlier. The call is checked like any other
    transition from the state it is made in (state invariants, C15, C16): holding a facade is ordinary use of the public API."""
    U, cfg = _U, _CFG
    ops = _OPS
    quick = cfg.get('held_quick', True)
    acc = runtime.Acc()
    cache, obs_cache = {}, {}
    old_limit = sys.getrecursionlimit()
    sys.setrecursionlimit(cfg.get('reclimit', 400))
    conts = [('T', i) for i in range(U.n)] + [('W', k) for k in range(U.m)]
    by_cont = {c: [o for o in ops if o[0] in FACADE_FAMS and o[1] == c] for c in conts}
    if quick:
        for c in conts:
            by_cont[c] = [o for o in by_cont[c] if not (o[0] in ('move_before', 'move_after') and len(o[2]) > 1)
                          and not (o[0] == 'insert' and o[2] not in (0, 1, 2))]
    first_fams = {'sort', 'reorder', 'list=', 'remove', 'append', 'parent', 'W.remove', 'remove_all_fn'} if quick else None
    try:
        for enc, hist in chunk:
            for c in conts:
                firsts = [o for o in ops if (o[0] == 'parent' or (len(o) > 1 and o[1] == c) or o[0] == 'W.remove')
                          and not o[0].startswith(('pred', 'succ')) and o[0] != 'Task()'
                          and (first_fams is None or o[0] in first_fams)]
                for op1 in firsts:
                    # state after op1 (op1 itself is an ordinary transition, checked elsewhere)
                    U.restore(enc)
                    try:
                        O.apply(U, op1)
                    except Exception:  # noqa
                        continue
                    enc1 = U.encode()
                    if enc1 == enc:
                        continue
                    obs1 = obs_cache.get(enc1)
                    if obs1 is None:
                        obs1 = obs_cache[enc1] = U.observe()
                    if core.state_violations(U, obs1):
                        continue
                    abs1 = core.abstract(obs1, U.n, U.m)
                    for op3 in by_cont[c]:
                        U.restore(enc)
                        F = O._facade(U, c)
                        len(F), list(F)  # the facade has been looked at before the other operation runs
                        O.apply(U, op1)
                        acc.count('held_facade_transitions')
                        run_transition(U, enc1, obs1, abs1, op3, acc, hist + (op1,), cache, obs_cache, True, facade=F, restore=False)
                    # two operations between taking the facade and using it: one that rebuilds the list in place (sort / reorder
                    # through a fresh access), then an adoption into it; then an ordering mutator through the old facade
                    if op1[0] in ('sort', 'reorder') and op1[1] == c:
                        seconds = [o for o in ops if (o[0] == 'append' and o[1] == c) or (o[0] == 'parent' and c[0] == 'T' and o[2] == c[1])]
                        thirds = [o for o in by_cont[c] if o[0] in ('move_before', 'move_after', 'insert', 'sort', 'reorder', 'remove')]
                        for op2 in seconds:
                            U.restore(enc1)
                            try:
                                O.apply(U, op2)
                            except Exception:  # noqa
                                continue
                            enc2 = U.encode()
                            if enc2 == enc1:
                                continue
                            obs2 = obs_cache.get(enc2)
                            if obs2 is None:
                                obs2 = obs_cache[enc2] = U.observe()
                            if core.state_violations(U, obs2):
                                continue
                            abs2 = core.abstract(obs2, U.n, U.m)
                            for op3 in thirds:
                                U.restore(enc)
                                F = O._facade(U, c)
                                len(F), list(F)
                                O.apply(U, op1)
                                O.apply(U, op2)
                                acc.count('held_facade_transitions')
                                acc.count('held_facade_transitions_depth2')
                                run_transition(U, enc2, obs2, abs2, op3, acc, hist + (op1, op2), cache, obs_cache, True, facade=F, restore=False)
            # link-list facades
            for x in range(U.n):
                for side in ('pred', 'succ'):
                    firsts = [o for o in ops if o[0].startswith(side) and o[1] == x and o[0][4:] in ('=', '.append', '.remove')]
                    thirds = [o for o in ops if o[0].startswith(side) and o[1] == x and o[0][4:] in LINK_FACADE_SUFFIXES]
                    for op1 in firsts:
                        U.restore(enc)
                        try:
                            O.apply(U, op1)
                        except Exception:  # noqa
                            continue
                        enc1 = U.encode()
                        if enc1 == enc:
                            continue
                        obs1 = obs_cache.get(enc1)
                        if obs1 is None:
                            obs1 = obs_cache[enc1] = U.observe()
                        if core.state_violations(U, obs1):
                            continue
                        abs1 = core.abstract(obs1, U.n, U.m)
                        for op3 in thirds:
                            U.restore(enc)
                            F = U.tasks[x].predecessors if side == 'pred' else U.tasks[x].successors
                            O.apply(U, op1)
                            acc.count('held_facade_transitions')
                            run_transition(U, enc1, obs1, abs1, op3, acc, hist + (op1,), cache, obs_cache, True, facade=F, restore=False)
    finally:
        sys.setrecursionlimit(old_limit)
    return acc


def seeded_states(uname, deep_only=True, in_wbs=(True,), max_links=1):
    """States of a 5-task universe built directly through the public API instead of by search: every ordered forest shape
    (deep_only: with at least three levels), all tasks inside W0 or all detached, and every placement of <= max_links
    dependency links. They serve as start states for one step of the rich alphabet (the closure of 5 tasks is out of reach)."""
    from ..sched import layers as LY
    U = make_universe(uname)
    out = {}
    for par in LY.forests(U.n):
        depth = max(len(LY.ancestors(par, i)) for i in range(U.n))
        if deep_only and depth < 2:
            continue
        for inw in in_wbs:
            if inw == 'last-out' and par[U.n - 1] is not None:
                continue
            for links in LY.link_sets(par, max_links):
                U.restore(U.init_enc)
                hist = []
                try:
                    for i in range(U.n):
                        if par[i] is None:
                            if inw == 'last-out':
                                # every root but the last task goes into W0; the last task stays a detached root
                                if i == U.n - 1:
                                    continue
                                op = ('append', ('W', 0), i)
                            elif inw == 'split':
                                # universes with two WBSs (equal ids in different trees): roots go to W0 and W1 in turn
                                op = ('append', ('W', sum(1 for j in range(i) if par[j] is None) % U.m), i)
                            elif inw:
                                op = ('append', ('W', 0), i)
                            else:
                                continue
                        else:
                            op = ('append', ('T', par[i]), i)
                        O.apply(U, op)
                        hist.append(op)
                    for p_, s_ in links:
                        op = ('pred.append', s_, p_)
                        O.apply(U, op)
                        hist.append(op)
                except RuntimeError:
                    continue
                out[U.encode()] = tuple(hist)
    return out


def _verdict_settled(acc):
    every = bool(os.environ.get('VF_ALL_PROPS'))
    known = runtime.load_known()
    for (prop, sig) in acc.viol:
        if (every or prop == runtime.CURRENT_PROP) and runtime.match_known(known, prop, sig) is None:
            return True
    return False


def _chase(U, chase, acc, rounds=2, cap=800):
    """Successor states of the rich alphabet that break only C05 / C11 (e.g. a task that dropped out of its tree and still names its
    WBS) are followed for two more steps of the attach alphabet: what such a state allows next (a second task with the same id
    attached unnoticed) belongs to the same properties. There are none on a tree that satisfies them, so this costs nothing then."""
    global _OPS, _SEEN
    if not chase:
        return
    if _verdict_settled(acc):
        # the property under check already has a violation that decides the exit code: following broken states further only
        # costs time. Violations of OTHER properties do not settle anything - a change that breaks C01 in many states may break
        # C05 only two steps later, and that is exactly what the chase is for.
        acc.count('chase_skipped_verdict_settled')
        return
    saved = U.alphabet
    U.alphabet = 'full'
    _OPS = [o for o in O.alphabet(U) if o[0] in ATTACH_FAMILIES | {'remove', 'W.remove'}
            and o[0] not in ('list=view', 'list+=view', 'list=iter', 'Task()')]
    U.alphabet = saved
    frontier = {}
    for k, h in chase:
        frontier.setdefault(k, h)
    for _ in range(rounds):
        items = list(frontier.items())[:cap]
        if not items:
            break
        acc.count('chased_states_breaking_only_C05_or_C11', len(items))
        frontier = {}
        for r in runtime.pmap(_expand_chunk, runtime.split(items, runtime.n_workers() * 4)):
            r.extra.pop('new')
            for k, h in r.extra.pop('chase', []):
                frontier.setdefault(k, h)
            acc.merge(r)


def from_states(uname, states, alphabet, acc):
    """One step of `alphabet` from each given state, with all transition oracles (successors are not expanded)."""
    global _U, _OPS, _SEEN, _CFG
    U = make_universe(uname)
    saved = U.alphabet
    U.alphabet = alphabet
    _OPS = O.alphabet(U)
    U.alphabet = saved
    _U, _CFG = U, {'reclimit': 400, 'max_links': None}
    _SEEN = set(states)
    t0 = acc.counters['transitions']
    chase = []
    for r in runtime.pmap(_expand_chunk, runtime.split(list(states.items()), runtime.n_workers() * 4)):
        r.extra.pop('new')
        chase += r.extra.pop('chase', [])
        acc.merge(r)
    _chase(U, chase, acc)
    return acc.counters['transitions'] - t0


def held_facades(uname, states, acc, quick=True):
    """Run the held-facade transitions from the given states (dict enc -> history) of universe uname."""
    global _U, _OPS, _CFG
    U = make_universe(uname)
    saved = U.alphabet
    U.alphabet = 'full'
    _OPS = O.alphabet(U)
    U.alphabet = saved
    _U, _CFG = U, {'reclimit': 400, 'held_quick': quick}
    t0 = acc.counters['held_facade_transitions']
    items = list(states.items())
    for r in runtime.pmap(_held_chunk, runtime.split(items, runtime.n_workers() * 4)):
        acc.merge(r)
    return acc.counters['held_facade_transitions'] - t0


def explore(uname, acc, max_depth=None, state_cap=250000, time_cap=None, collect=False, max_links=None, phase2=None):
    """BFS closure of universe `uname`. Returns dict with states/transitions/closed/depth and, if collect, the states."""
    global _U, _OPS, _SEEN, _CFG
    U = make_universe(uname)
    ops = O.alphabet(U)
    _U, _OPS, _CFG = U, ops, {'reclimit': 400, 'max_links': max_links}
    seen = {U.init_enc: ()}
    dead = set()
    frontier = [(U.init_enc, ())]
    depth = 0
    closed = True
    t0 = time.time()
    trans0 = acc.counters['transitions']
    levels = []
    chase_all = []
    while frontier:
        if max_depth is not None and depth >= max_depth:
            closed = False
            break
        if time_cap is not None and time.time() - t0 > time_cap:
            closed = False
            break
        if len(acc.viol) > 300:
            # hundreds of distinct violation signatures: the verdict is settled, further expansion of a badly broken
            # tree only costs time (never happens on a tree that satisfies the properties)
            closed = False
            acc.count('exploration_stopped_after_300_violation_signatures')
            break
        _SEEN = set(seen) | dead
        nw = runtime.n_workers()
        chunks = runtime.split(frontier, nw * 4)
        nxt = []
        for r in runtime.pmap(_expand_chunk, chunks):
            newl = r.extra.pop('new')
            chase_all += r.extra.pop('chase', None) or []
            acc.merge(r)
            for k, h in newl:
                if h is None:
                    dead.add(k)
                elif k not in seen:
                    seen[k] = h
                    nxt.append((k, h))
        levels.append(len(frontier))
        depth += 1
        frontier = nxt
        if len(seen) > state_cap:
            closed = False
            break
    if chase_all:
        _chase(U, chase_all, acc)
        _OPS = ops
    phase2_transitions = 0
    if phase2 and closed and not frontier:
        # phase 2: from every reachable state apply every operation of the richer alphabet once (oracles on each
        # transition; successors are not expanded further)
        saved = U.alphabet
        U.alphabet = phase2
        ops2 = [o for o in O.alphabet(U) if o not in set(ops)]
        U.alphabet = saved
        _OPS = ops2
        _SEEN = set(seen) | dead
        t1 = acc.counters['transitions']
        items = list(seen.items())
        if phase2 == 'order':
            # ordering operations on lists of one or two elements are covered by the 3-task universes: keep the states
            # in which some children/root list has at least three entries
            def long_list(enc):
                U.restore(enc)
                o = U.observe()
                return any(len(t[1]) >= 3 for t in o[0]) or any(len(r) >= 3 for r in o[1])
            items = [(k, h) for k, h in items if long_list(k)]
        chase = []
        for r in runtime.pmap(_expand_chunk, runtime.split(items, runtime.n_workers() * 4)):
            n_new = len(r.extra.pop('new'))
            chase += r.extra.pop('chase', [])
            acc.merge(r)
            acc.count('phase2_successors_not_expanded', n_new)
        _chase(U, chase, acc)
        phase2_transitions = acc.counters['transitions'] - t1
        _OPS = ops
    res = {'universe': uname, 'ops_per_state': len(ops), 'states': len(seen), 'dead_states': len(dead),
           'transitions': acc.counters['transitions'] - trans0, 'closed': closed and not frontier,
           'depth_completed': depth, 'level_sizes': levels, 'unexpanded_frontier': len(frontier),
           'phase2_alphabet': phase2, 'phase2_transitions': phase2_transitions}
    if collect:
        res['state_list'] = seen
        res['U'] = U
    # a few deep states as samples
    deep = sorted(seen.items(), key=lambda kv: -len(kv[1]))[:2]
    for k, h in deep:
        acc.sample({'universe': uname, 'history': [O.describe(x) for x in h]})
    return res
