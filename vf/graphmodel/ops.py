"""Engine A: operation alphabet, execution on the real objects, and the reference semantics
("documented effect", DESIGN 4.4) on the abstract state.

An op is a tuple (family, *args) of plain data (ints, tuples, strings) so that it can be
pickled, printed and replayed.  Containers are ('T', i) = children of task i, ('W', k) = roots of WBS k.
"""
import itertools

from . import core
from .core import A, ABSENT_ID

SKIP = None  # effect undefined by the documentation: C16 makes no claim


# --------------------------------------------------------------------------------------------
# alphabet

def _seqs(n, maxlen=2):
    out = [()]
    for a in range(n):
        out.append((a,))
    if maxlen >= 2:
        for a in range(n):
            for b in range(n):
                out.append((a, b))
    return out


def _move_lists(n):
    out = [(a,) for a in range(n)]
    out += [(a, b) for a in range(n) for b in range(n) if a != b]
    out.append((0, 0))
    return out


def _reorder_ids(ids):
    d = sorted(set(ids), key=repr)
    out = [()]
    out += [(a,) for a in d]
    out += [(a, b) for a in d for b in d if a != b]
    if len(d) <= 3:
        out += [p for p in itertools.permutations(d) if len(p) > 2]
    out += [(ABSENT_ID,), (d[0], d[0]), (d[0], ABSENT_ID)]
    return out


SORT_KEYS = ['id', 'name', ('name', 'id'), 'mix']
FILTERS = ['name_b', 'all', 'none']


def alphabet(U):
    n, m = U.n, U.m
    ops = []
    tasks = range(n)
    seqs = _seqs(n)
    dids = sorted(set(U.ids), key=repr)
    if U.alphabet == 'structure':
        # cheap alphabet that reaches every hierarchy / membership state (also the hidden ones, e.g. stale owners):
        # used as phase 1 of the two-phase deep exploration
        conts = [('T', i) for i in tasks] + [('W', k) for k in range(m)]
        for c in conts:
            for y in tasks:
                ops.append(('append', c, y))
                ops.append(('remove', c, y))
        for x in tasks:
            ops.append(('parent', x, None))
        for k in range(m):
            for y in tasks:
                ops.append(('W.remove', k, y))
        return ops
    if U.alphabet == 'reach':
        # C10/C18 state supply: just enough to reach every shape and link placement.
        # tasks 0..n-2 live in/around W0, the last task only in W1.
        last = n - 1
        for x in range(last):
            ops.append(('append', ('W', 0), x))
            ops.append(('remove', ('W', 0), x))
            for y in range(last):
                if x != y:
                    ops.append(('parent', x, y))
        ops.append(('append', ('W', 1), last))
        for x in tasks:
            for y in tasks:
                if x != y:
                    ops.append(('pred.append', x, y))
        return ops
    if not U.links_only:
        conts = [('T', i) for i in tasks] + [('W', k) for k in range(m)]
        for x in tasks:
            ops.append(('parent', x, None))
            for y in tasks:
                ops.append(('parent', x, y))
        for c in conts:
            for L in seqs:
                ops.append(('list=', c, L))
                ops.append(('list+=', c, L))
                ops.append(('//', c, L))
            for L in seqs:
                if len(L) == 2:
                    # one-shot iterators as arguments (generators are legal wherever a sequence of tasks / ids is)
                    ops.append(('list=iter', c, L))
            for ids in _reorder_ids(U.ids)[:8]:
                ops.append(('reorder_iter', c, ids))
            for c2 in conts:
                # the right-hand side is a live list view of the library (another task's children, the roots, itself)
                ops.append(('list=view', c, c2))
                ops.append(('list+=view', c, c2))
            for y in tasks:
                ops.append(('//1', c, y))
                ops.append(('append', c, y))
                ops.append(('remove', c, y))
                ops.append(('move_none', c, y))
                for i in range(-n - 2, n + 2):
                    ops.append(('insert', c, i, y))
            for L in _move_lists(n):
                for z in tasks:
                    ops.append(('move_before', c, L, z))
                    ops.append(('move_after', c, L, z))
            ops.append(('move_both', c, 0, 1, 2 % n))
            ops.append(('move_both', c, 1, 0, 0))
            for key in SORT_KEYS:
                ops.append(('sort', c, key, False))
                ops.append(('sort', c, key, True))
            ops.append(('sort_bad', c))
            for ids in _reorder_ids(U.ids):
                ops.append(('reorder', c, ids))
            for v in dids:
                ops.append(('remove_all_id', c, v))
            for f in FILTERS:
                ops.append(('remove_all_fn', c, f))
            for y in tasks:
                ops.append(('list<<', c, y))
                ops.append(('list>>', c, y))
                ops.append(('list.parent=', c, y))
            ops.append(('list.parent=', c, None))
        for k in range(m):
            for y in tasks:
                ops.append(('W.remove', k, y))
            ops.append(('W.remove_bad', k))
            for v in dids:
                ops.append(('W.remove_all_id', k, v))
            for f in FILTERS:
                ops.append(('W.remove_all_fn', k, f))
            for y in list(tasks) + [None]:
                ops.append(('W.tasks.parent=', k, (dids[0], dids[-1]), y))
    for x in tasks:
        for side in ('pred', 'succ'):
            if not U.links_only:
                for c2 in [('T', i) for i in tasks] + [('W', k) for k in range(m)]:
                    ops.append((side + '=view', x, c2))
            for L in seqs:
                ops.append((side + '=', x, L))
                ops.append((side + '+=', x, L))
            for y in tasks:
                ops.append((side + '.append', x, y))
                ops.append((side + '.remove', x, y))
                ops.append((side + '<<1', x, y))
            for v in dids:
                ops.append((side + '.remove_all_id', x, v))
    if U.alphabet == 'order':
        # ordering operations only (phase 2 of the 4-task ordering universe)
        keep = {'move_before', 'move_after', 'move_none', 'move_both', 'sort', 'sort_bad', 'reorder', 'insert', 'reorder_iter'}
        ops = [o for o in ops if o[0] in keep]
    if U.alphabet == 'attach':
        # quick-tier trim for the duplicate-id universe: ordering operations are covered by U3
        drop = {'move_before', 'move_after', 'move_none', 'move_both', 'sort', 'sort_bad', 'reorder', 'list+=', 'list+=view',
                'pred+=', 'succ+=', 'pred<<1', 'succ<<1', 'pred.remove_all_id', 'succ.remove_all_id'}
        ops = [o for o in ops if (o[0] not in drop or (o[0] in ('move_before', 'move_after') and len(o[2]) == 1))
               and not (o[0] == 'insert' and o[2] not in (0, 1)) and o[0] != 'reorder_iter']
    if U.ctor:
        for x in tasks:
            for y in list(tasks) + [None]:
                for L in [None, (), ] + [s for s in seqs if len(s) == 1]:
                    for P in [None] + [s for s in seqs if len(s) == 1]:
                        for S in [None] + [s for s in seqs if len(s) == 1]:
                            if y is None and L is None and P is None and S is None:
                                continue
                            ops.append(('Task()', x, y, L, P, S))
    return ops


def describe(op, U=None):
    """Readable Python-like rendering for replay files."""
    f = op[0]
    if f == 'read':
        return 'read every public getter (parent, children, links, wbs, all_parents, all_children, W.roots, W.tasks, W[id])'

    def t(i):
        return 'None' if i is None else 't%d' % i

    def c(cc):
        return ('t%d.children' % cc[1]) if cc[0] == 'T' else ('W%d.roots' % cc[1])

    def own(cc):
        return ('t%d' % cc[1]) if cc[0] == 'T' else ('W%d' % cc[1])

    def L(l):
        return '[' + ', '.join(t(i) for i in l) + ']'

    if f == 'parent':
        return f'{t(op[1])}.parent = {t(op[2])}'
    if f == 'list=iter':
        return f'{c(op[1])} = iter({L(op[2])})'
    if f == 'reorder_iter':
        return f'{c(op[1])}.reorder(iter({list(op[2])}))'
    if f == 'list=view':
        return f'{c(op[1])} = {c(op[2])}'
    if f == 'list+=view':
        return f'{c(op[1])} += {c(op[2])}'
    if f in ('pred=view', 'succ=view'):
        return f'{t(op[1])}.{"predecessors" if f[0] == "p" else "successors"} = {c(op[2])}'
    if f == 'list=':
        return f'{c(op[1])} = {L(op[2])}'
    if f == 'list+=':
        return f'{c(op[1])} += {L(op[2])}'
    if f == '//':
        return f'{own(op[1])} // {L(op[2])}'
    if f == '//1':
        return f'{own(op[1])} // {t(op[2])}'
    if f in ('append', 'remove'):
        return f'{c(op[1])}.{f}({t(op[2])})'
    if f == 'insert':
        return f'{c(op[1])}.insert({op[2]}, {t(op[3])})'
    if f == 'move_before':
        return f'{c(op[1])}.move({L(op[2]) if len(op[2]) > 1 else t(op[2][0])}, before={t(op[3])})'
    if f == 'move_after':
        return f'{c(op[1])}.move({L(op[2]) if len(op[2]) > 1 else t(op[2][0])}, after={t(op[3])})'
    if f == 'move_none':
        return f'{c(op[1])}.move({t(op[2])})'
    if f == 'move_both':
        return f'{c(op[1])}.move({t(op[2])}, before={t(op[3])}, after={t(op[4])})'
    if f == 'sort':
        return f'{c(op[1])}.sort({list(op[2]) if isinstance(op[2], tuple) else op[2]!r}, reverse={op[3]})'
    if f == 'sort_bad':
        return f'{c(op[1])}.sort(5)'
    if f == 'reorder':
        return f'{c(op[1])}.reorder({list(op[2])})'
    if f == 'remove_all_id':
        return f'{c(op[1])}.remove_all(id={op[2]})'
    if f == 'remove_all_fn':
        return f'{c(op[1])}.remove_all(<{op[2]}>)' if op[2] != 'none' else f'{c(op[1])}.remove_all()'
    if f == 'list<<':
        return f'{c(op[1])} << {t(op[2])}'
    if f == 'list>>':
        return f'{c(op[1])} >> {t(op[2])}'
    if f == 'list.parent=':
        return f'{c(op[1])}.parent = {t(op[2])}'
    if f == 'W.remove':
        return f'W{op[1]}.remove({t(op[2])})'
    if f == 'W.remove_bad':
        return f'W{op[1]}.remove("x")'
    if f == 'W.remove_all_id':
        return f'W{op[1]}.remove_all(id={op[2]})'
    if f == 'W.remove_all_fn':
        return f'W{op[1]}.remove_all(<{op[2]}>)' if op[2] != 'none' else f'W{op[1]}.remove_all()'
    if f == 'W.tasks.parent=':
        return f'W{op[1]}.tasks(id_in_={list(op[2])}).parent = {t(op[3])}'
    if f == 'Task()':
        return (f'{t(op[1])} = Task(id, parent={t(op[2])}, children={None if op[3] is None else L(op[3])}, '
                f'predecessors={None if op[4] is None else L(op[4])}, successors={None if op[5] is None else L(op[5])})')
    side = 'predecessors' if f.startswith('pred') else 'successors'
    g = f[4:]
    if g == '=':
        return f'{t(op[1])}.{side} = {L(op[2])}'
    if g == '+=':
        return f'{t(op[1])}.{side} += {L(op[2])}'
    if g in ('.append', '.remove'):
        return f'{t(op[1])}.{side}{g}({t(op[2])})'
    if g == '<<1':
        return f'{t(op[1])} {"<<" if side == "predecessors" else ">>"} {t(op[2])}'
    if g == '.remove_all_id':
        return f'{t(op[1])}.{side}.remove_all(id={op[2]})'
    return repr(op)


# --------------------------------------------------------------------------------------------
# execution on the real objects

def _filter_fn(name):
    if name == 'none':
        return None
    if name == 'name_b':
        return lambda t: t.name == 'b'
    return lambda t: True


def _facade(U, c):
    return U.tasks[c[1]].children if c[0] == 'T' else U.wbs[c[1]].roots


def _owner_obj(U, c):
    return U.tasks[c[1]] if c[0] == 'T' else U.wbs[c[1]]


def apply(U, op, facade=None):
    """Execute op through the public API. Returns a normalised return value (or None).
    `facade`: a previously captured list facade to use instead of a fresh one (stale-facade ops)."""
    T = U.tasks
    f = op[0]
    r = U._r
    if f == 'read':
        core.read_all(U)
        return None
    if f == 'parent':
        T[op[1]].parent = None if op[2] is None else T[op[2]]
        return None
    if f == 'list=iter':
        o = _owner_obj(U, op[1])
        it = (T[i] for i in op[2])
        if op[1][0] == 'T':
            o.children = it
        else:
            o.roots = it
        return None
    if f == 'reorder_iter':
        fac = facade if facade is not None else _facade(U, op[1])
        fac.reorder(i for i in op[2])
        return None
    if f in ('list=view', 'list+=view'):
        o = _owner_obj(U, op[1])
        view = _facade(U, op[2])
        if f == 'list=view':
            if op[1][0] == 'T':
                o.children = view
            else:
                o.roots = view
        else:
            if op[1][0] == 'T':
                o.children += view
            else:
                o.roots += view
        return None
    if f in ('pred=view', 'succ=view'):
        view = _facade(U, op[2])
        if f[0] == 'p':
            T[op[1]].predecessors = view
        else:
            T[op[1]].successors = view
        return None
    if f in ('list=', 'list+=', '//', '//1', 'append', 'remove', 'insert', 'move_before', 'move_after', 'move_none',
             'move_both', 'sort', 'sort_bad', 'reorder', 'remove_all_id', 'remove_all_fn', 'list<<', 'list>>',
             'list.parent='):
        c = op[1]
        o = _owner_obj(U, c)
        if f == 'list=':
            val = [T[i] for i in op[2]]
            if c[0] == 'T':
                o.children = val
            else:
                o.roots = val
            return None
        if f == 'list+=':
            val = [T[i] for i in op[2]]
            if c[0] == 'T':
                o.children += val
            else:
                o.roots += val
            return None
        if f == '//':
            o // [T[i] for i in op[2]]
            return None
        if f == '//1':
            o // T[op[2]]
            return None
        fac = facade if facade is not None else _facade(U, c)
        if f == 'append':
            fac.append(T[op[2]])
            return None
        if f == 'remove':
            return ('ret', fac.remove(T[op[2]]))
        if f == 'insert':
            fac.insert(op[2], T[op[3]])
            return None
        if f == 'move_before':
            L = op[2]
            fac.move(T[L[0]] if len(L) == 1 else [T[i] for i in L], before=T[op[3]])
            return None
        if f == 'move_after':
            L = op[2]
            fac.move(T[L[0]] if len(L) == 1 else [T[i] for i in L], after=T[op[3]])
            return None
        if f == 'move_none':
            fac.move(T[op[2]])
            return None
        if f == 'move_both':
            fac.move(T[op[2]], before=T[op[3]], after=T[op[4]])
            return None
        if f == 'sort':
            key = list(op[2]) if isinstance(op[2], tuple) else op[2]
            fac.sort(key, reverse=op[3])
            return None
        if f == 'sort_bad':
            fac.sort(5)
            return None
        if f == 'reorder':
            fac.reorder(list(op[2]))
            return None
        if f == 'remove_all_id':
            return ('ret', tuple(r(x) for x in fac.remove_all(id=op[2])))
        if f == 'remove_all_fn':
            fn = _filter_fn(op[2])
            return ('ret', tuple(r(x) for x in (fac.remove_all(fn) if fn is not None else fac.remove_all())))
        if f == 'list<<':
            fac << T[op[2]]
            return None
        if f == 'list>>':
            fac >> T[op[2]]
            return None
        if f == 'list.parent=':
            fac.parent = None if op[2] is None else T[op[2]]
            return None
    if f == 'W.remove':
        return ('ret', U.wbs[op[1]].remove(T[op[2]]))
    if f == 'W.remove_bad':
        return ('ret', U.wbs[op[1]].remove('x'))
    if f == 'W.remove_all_id':
        return ('ret', tuple(r(x) for x in U.wbs[op[1]].remove_all(id=op[2])))
    if f == 'W.remove_all_fn':
        fn = _filter_fn(op[2])
        return ('ret', tuple(r(x) for x in (U.wbs[op[1]].remove_all(fn) if fn is not None else U.wbs[op[1]].remove_all())))
    if f == 'W.tasks.parent=':
        U.wbs[op[1]].tasks(id_in_=list(op[2])).parent = None if op[3] is None else T[op[3]]
        return None
    if f == 'Task()':
        x = T[op[1]]
        kw = {}
        if op[2] is not None:
            kw['parent'] = T[op[2]]
        if op[3] is not None:
            kw['children'] = [T[i] for i in op[3]]
        if op[4] is not None:
            kw['predecessors'] = [T[i] for i in op[4]]
        if op[5] is not None:
            kw['successors'] = [T[i] for i in op[5]]
        # the real constructor, run on a pristine (never related) task object of the universe
        x.__init__(U.ids[op[1]], name=U.names[op[1]], tag='t%d' % op[1], mix=U.mix[op[1]], **U.extra[op[1]], **kw)
        return None
    side = f[:4]
    g = f[4:]
    x = T[op[1]]
    if g == '=':
        val = [T[i] for i in op[2]]
        if side == 'pred':
            x.predecessors = val
        else:
            x.successors = val
        return None
    if g == '+=':
        val = [T[i] for i in op[2]]
        if side == 'pred':
            x.predecessors += val
        else:
            x.successors += val
        return None
    fac = facade if facade is not None else (x.predecessors if side == 'pred' else x.successors)
    if g == '.append':
        fac.append(T[op[2]])
        return None
    if g == '.remove':
        return ('ret', fac.remove(T[op[2]]))
    if g == '<<1':
        if side == 'pred':
            x << T[op[2]]
        else:
            x >> T[op[2]]
        return None
    if g == '.remove_all_id':
        return ('retset', frozenset(r(y) for y in fac.remove_all(id=op[2])))
    raise RuntimeError('HARNESS unknown op ' + repr(op))


# --------------------------------------------------------------------------------------------
# reference semantics

def _lst(a: A, c):
    return a.ch[c[1]] if c[0] == 'T' else a.roots[c[1]]


def _owner(a: A, c):
    return a.own[c[1]] if c[0] == 'T' else c[1]


def _detach(a: A, y):
    p = a.par[y]
    if p is not None:
        if y in a.ch[p]:
            a.ch[p].remove(y)
    else:
        for k in range(a.m):
            if y in a.roots[k]:
                a.roots[k].remove(y)
    a.par[y] = None


def _attach(a: A, y, c, pos=None):
    _detach(a, y)
    lst = _lst(a, c)
    if pos is None:
        lst.append(y)
    else:
        lst.insert(pos, y)
    a.par[y] = c[1] if c[0] == 'T' else None
    o = _owner(a, c)
    for s in a.subtree(y):
        a.own[s] = o


def _release(a: A, y):
    _detach(a, y)
    for s in a.subtree(y):
        a.own[s] = None


def _dedupe_variants(L):
    first = []
    for v in L:
        if v not in first:
            first.append(v)
    last = []
    for v in reversed(L):
        if v not in last:
            last.append(v)
    last.reverse()
    return [first] if first == last else [first, last]


def _assign(a: A, c, L, last_wins=False):
    res = []
    variants = _dedupe_variants(list(L))
    if last_wins:
        # 'x // t' and 'x.children += t' are documented as synonyms of children.append(t): a member that is added again goes last
        variants = variants[-1:]
    for order in variants:
        b = a.copy()
        for v in list(_lst(b, c)):
            if v not in order:
                _release(b, v)
        for v in order:
            _attach(b, v, c)
        res.append(b)
    return res


def _interleavings(others, movers):
    """All lists that keep `others` in order and contain each mover once, anywhere, in any order."""
    res = []
    for perm in set(itertools.permutations(movers)):
        def rec(prefix, oi, mi):
            if oi == len(others) and mi == len(perm):
                res.append(list(prefix))
                return
            if oi < len(others):
                rec(prefix + [others[oi]], oi + 1, mi)
            if mi < len(perm):
                rec(prefix + [perm[mi]], oi, mi + 1)
        rec([], 0, 0)
    return res


def _parent_effect(a: A, x, y):
    """x.parent = y, list of admissible posts."""
    if y is not None:
        b = a.copy()
        _attach(b, x, ('T', y))
        res = [b]
        if a.par[x] == y:
            res.append(a.copy())  # already the parent: may keep its place
        return res
    if a.own[x] is None:
        b = a.copy()
        _release(b, x)
        return [b]
    k = a.own[x]
    b = a.copy()
    _attach(b, x, ('W', k))
    res = [b]
    if a.par[x] is None and x in a.roots[k]:
        res.append(a.copy())
    return res


def _set_links(a: A, x, new, side):
    b = a.copy()
    mine, theirs = (b.pred, b.succ) if side == 'pred' else (b.succ, b.pred)
    for j in list(mine[x]):
        if j not in new:
            theirs[j].discard(x)
    for j in new:
        theirs[j].add(x)
    mine[x] = set(new)
    return b


def _sort_key(U, key):
    if isinstance(key, tuple):
        return lambda i: tuple(getattr(U.tasks[i], k) for k in key)
    return lambda i: getattr(U.tasks[i], key)


def effect(U, a: A, op):
    """Returns (list of admissible abstract post-states | SKIP, expected return | None)."""
    f = op[0]
    if f == 'read':
        return [a.copy()], None
    if f == 'parent':
        return _parent_effect(a, op[1], op[2]), None
    if f == 'list=iter':
        return _assign(a, op[1], op[2]), None
    if f == 'reorder_iter':
        return effect(U, a, ('reorder', op[1], op[2]))
    if f == 'list=view':
        return _assign(a, op[1], list(_lst(a, op[2]))), None
    if f == 'list+=view':
        return _assign(a, op[1], list(_lst(a, op[1])) + list(_lst(a, op[2]))), None
    if f in ('pred=view', 'succ=view'):
        return [_set_links(a, op[1], set(_lst(a, op[2])), f[:4])], None
    if f == 'list=':
        return _assign(a, op[1], op[2]), None
    if f in ('list+=', '//'):
        return _assign(a, op[1], list(_lst(a, op[1])) + list(op[2]), last_wins=len(op[2]) == 1), None
    if f == '//1':
        return _assign(a, op[1], list(_lst(a, op[1])) + [op[2]], last_wins=True), None
    if f == 'append':
        b = a.copy()
        _attach(b, op[2], op[1])
        return [b], None
    if f == 'insert':
        c, i, y = op[1], op[2], op[3]
        lst = _lst(a, c)
        if y not in lst and 0 <= i <= len(lst):
            b = a.copy()
            _attach(b, y, c, pos=i)
            return [b], None
        others = [v for v in lst if v != y]
        # a member of the same list: the statement fixes the position for a NEW task only ("insert(i) puts a new task at index i");
        # for a member it promises that the other siblings keep their order - every position of y is admitted. (A stricter
        # reference - y stands at index i afterwards - was tried after seed C16-w12 and withdrawn: an independent benign change
        # counts the index against the list as it stands, like list.insert, which the statement allows. DESIGN 8.3.)
        res = []
        for arr in _interleavings(others, [y]):
            b = a.copy()
            _attach(b, y, c)
            _lst(b, c)[:] = arr
            res.append(b)
        return res, None
    if f == 'remove':
        c, y = op[1], op[2]
        if y in _lst(a, c):
            b = a.copy()
            _release(b, y)
            return [b], ('ret', True)
        return [a.copy()], ('ret', False)
    if f in ('move_before', 'move_after'):
        c, L, z = op[1], list(op[2]), op[3]
        lst = _lst(a, c)
        if any(v not in lst for v in L) or z not in lst:
            return SKIP, None
        if len(set(L)) != len(L) or z in L:
            movers = sorted(set(L))
            others = [v for v in lst if v not in movers]
            res = []
            for arr in _interleavings(others, movers):
                b = a.copy()
                _lst(b, c)[:] = arr
                res.append(b)
            return res, None
        others = [v for v in lst if v not in L]
        res = []
        for perm in itertools.permutations(L):
            arr = list(others)
            i = arr.index(z)
            if f == 'move_before':
                arr[i:i] = list(perm)
            else:
                arr[i + 1:i + 1] = list(perm)
            b = a.copy()
            _lst(b, c)[:] = arr
            res.append(b)
        return res, None
    if f in ('move_none', 'move_both', 'sort_bad', 'W.remove_bad'):
        return SKIP, None
    if f == 'sort':
        c, key, rev = op[1], op[2], op[3]
        b = a.copy()
        try:
            _lst(b, c)[:] = sorted(_lst(a, c), key=_sort_key(U, key), reverse=rev)
        except TypeError:
            return SKIP, None  # incomparable values: the documentation defines no effect
        return [b], None
    if f == 'reorder':
        c, ids = op[1], list(op[2])
        lst = _lst(a, c)
        have = [U.ids[v] for v in lst]
        if len(set(ids)) != len(ids) or any(i not in have for i in ids):
            return SKIP, None
        first = [lst[have.index(i)] for i in ids]
        b = a.copy()
        _lst(b, c)[:] = first + [v for v in lst if v not in first]
        return [b], None
    if f in ('remove_all_id', 'remove_all_fn'):
        c = op[1]
        lst = _lst(a, c)
        if f == 'remove_all_id':
            match = [v for v in lst if U.ids[v] == op[2]]
        else:
            match = [v for v in lst if (U.names[v] == 'b' if op[2] == 'name_b' else True)]
        b = a.copy()
        for v in match:
            _release(b, v)
        return [b], ('ret', tuple(match))
    if f in ('list<<', 'list>>'):
        c, y = op[1], op[2]
        side = 'pred' if f == 'list<<' else 'succ'
        b = a
        for t in _lst(a, c):
            cur = b.pred[t] if side == 'pred' else b.succ[t]
            b = _set_links(b, t, set(cur) | {y}, side)
        return [b.copy()], None
    if f == 'list.parent=':
        c, y = op[1], op[2]
        states = [a.copy()]
        for t in list(_lst(a, c)):
            nxt = []
            for s in states:
                nxt.extend(_parent_effect(s, t, y))
            states = nxt
        return states, None
    if f == 'W.remove':
        k, y = op[1], op[2]
        if y in a.members(k):
            b = a.copy()
            _release(b, y)
            return [b], ('ret', True)
        return [a.copy()], ('ret', False)
    if f in ('W.remove_all_id', 'W.remove_all_fn'):
        k = op[1]
        mem = a.members(k)
        if f == 'W.remove_all_id':
            match = [v for v in mem if U.ids[v] == op[2]]
        else:
            match = [v for v in mem if (U.names[v] == 'b' if op[2] == 'name_b' else True)]
        b = a.copy()
        for v in match:
            if v in b.members(k):
                _release(b, v)
        return [b], ('ret', tuple(match))
    if f == 'W.tasks.parent=':
        k, ids, y = op[1], op[2], op[3]
        sel = [v for v in a.members(k) if U.ids[v] in ids]
        states = [a.copy()]
        for t in sel:
            nxt = []
            for s in states:
                nxt.extend(_parent_effect(s, t, y))
            states = nxt
        return states, None
    if f == 'Task()':
        x, y, L, P, S = op[1:]
        states = [a.copy()]
        if y is not None:
            states = [s2 for s in states for s2 in _parent_effect(s, x, y)]
        if L is not None:
            states = [s2 for s in states for s2 in _assign(s, ('T', x), L)]
        if S:
            states = [_set_links(s, x, set(S), 'succ') for s in states]
        if P:
            states = [_set_links(s, x, set(P), 'pred') for s in states]
        return states, None
    side = f[:4]
    g = f[4:]
    x = op[1]
    cur = a.pred[x] if side == 'pred' else a.succ[x]
    if g == '=':
        return [_set_links(a, x, set(op[2]), side)], None
    if g == '+=':
        return [_set_links(a, x, set(cur) | set(op[2]), side)], None
    if g in ('.append', '<<1'):
        return [_set_links(a, x, set(cur) | {op[2]}, side)], None
    if g == '.remove':
        if op[2] in cur:
            return [_set_links(a, x, set(cur) - {op[2]}, side)], ('ret', True)
        return [a.copy()], ('ret', False)
    if g == '.remove_all_id':
        match = {v for v in cur if U.ids[v] == op[2]}
        return [_set_links(a, x, set(cur) - match, side)], ('retset', frozenset(match))
    raise RuntimeError('HARNESS no reference semantics for ' + repr(op))


# --------------------------------------------------------------------------------------------
# argument relations (signature vocabulary), evaluated on the pre-state

def _linked(a: A, y, targets):
    sub = a.subtree(y)
    for s in sub:
        for t in targets:
            if t in a.pred[s] or t in a.succ[s] or s in a.pred[t] or s in a.succ[t]:
                return True
    return False


def argrel(U, a: A, op):
    f = op[0]
    if f == 'read':
        return '-'
    flags = set()
    subj_task = None
    cont = None
    args = []
    if f == 'parent':
        x, y = op[1], op[2]
        if y is None:
            flags.add('none')
            flags.add('member' if a.own[x] is not None else 'detached')
            return '+'.join(sorted(flags))
        subj_task, cont, args = y, ('T', y), [x]
    elif f in ('list=view', 'list+=view'):
        cont = op[1]
        args = list(_lst(a, op[2]))
        flags.add('rhs-is-own-view' if op[1] == op[2] else 'rhs-is-view')
    elif f in ('pred=view', 'succ=view'):
        return 'rhs-is-view'
    elif f in ('list=', 'list+=', '//', 'move_before', 'move_after', 'list=iter'):
        cont = op[1]
        args = list(op[2])
    elif f in ('//1', 'append', 'remove', 'move_none', 'list<<', 'list>>'):
        cont = op[1]
        args = [op[2]]
    elif f == 'insert':
        cont = op[1]
        args = [op[3]]
        ln = len(_lst(a, cont))
        i = op[2]
        flags.add(('idx=-len' if i == -ln else 'idx<-len' if i < -ln else 'idx<0') if i < 0 else 'idx>len' if i > ln else 'idx=len' if i == ln else 'idx<len')
        if ln == 0:
            flags.add('emptylist')
    elif f == 'list.parent=':
        if op[2] is None:
            return 'none'
        cont = ('T', op[2])
        args = list(_lst(a, op[1]))
    elif f == 'W.tasks.parent=':
        if op[3] is None:
            return 'none'
        cont = ('T', op[3])
        args = [v for v in a.members(op[1]) if U.ids[v] in op[2]]
    elif f == 'W.remove':
        cont = ('W', op[1])
        args = [op[2]]
        flags.add('in-wbs' if op[2] in a.members(op[1]) else 'not-in-wbs')
        return '+'.join(sorted(flags))
    elif f == 'Task()':
        return 'ctor'
    elif f[:4] in ('pred', 'succ') and f[4:] in ('=', '+=', '.append', '<<1', '.remove'):
        x = op[1]
        args = list(op[2]) if isinstance(op[2], tuple) else [op[2]]
        for y in args:
            if y == x:
                flags.add('self')
            elif y in a.ancestors(x):
                flags.add('anc')
            elif y in a.subtree(x):
                flags.add('desc')
            if U.ids[y] in [U.ids[v] for v in range(U.n) if v != y]:
                flags.add('arg-shares-id')
        if len(args) != len(set(args)):
            flags.add('rep')
        if len(set(args)) >= 2:
            flags.add('multi')
        return '+'.join(sorted(flags)) or '-'
    else:
        return '-'
    if cont is not None and cont[0] == 'T':
        subj_task = cont[1]
    lst = _lst(a, cont)
    owner = _owner(a, cont)
    if f in ('move_before', 'move_after'):
        z = op[3]
        if z not in lst:
            flags.add('anchor-missing')
        if z in args:
            flags.add('anchor-in-tasks')
        if any(v not in lst for v in args):
            flags.add('task-missing')
    if len(args) != len(set(args)):
        flags.add('rep')
    if len(set(args)) >= 2:
        flags.add('multi')
    if cont[0] == 'T':
        target_members = set(a.subtree(([subj_task] + a.ancestors(subj_task))[-1])) if a.own[subj_task] is None \
            else set(a.members(a.own[subj_task]))
    else:
        target_members = set(a.members(cont[1]))
    seen_ids = {}
    for y in args:
        if subj_task is not None:
            if y == subj_task:
                flags.add('self')
            elif y in a.ancestors(subj_task):
                flags.add('anc')
            elif y in a.subtree(subj_task) and y not in lst:
                flags.add('deep-desc')
        if y in lst:
            flags.add('member')
        if a.own[y] is not None and a.own[y] != owner:
            flags.add('xwbs')
        sub = set(a.subtree(y))
        tm_ids = {U.ids[v] for v in target_members - sub}
        if any(U.ids[s] in tm_ids for s in sub):
            flags.add('dupid')
        for s in sub:
            if U.ids[s] in seen_ids and seen_ids[U.ids[s]] != s and seen_ids[U.ids[s]] not in sub:
                flags.add('dupid-between-args')
            seen_ids.setdefault(U.ids[s], s)
        if subj_task is not None and _linked(a, y, [subj_task] + a.ancestors(subj_task)):
            flags.add('linked')
    return '+'.join(sorted(flags)) or '-'
