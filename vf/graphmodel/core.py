"""Engine A core: a closed universe of live pjplan objects, generic snapshot/restore,
observation through public getters, abstract state and state invariants (C01/C05/C11 clauses).
"""
import sys

from pjplan import Task, WBS

ABSENT_ID = 99
_CONTAINERS = (list, tuple, dict, set, frozenset)


class Universe:
    """A fixed set of live Task/WBS objects. States are encodings of their relation-typed
    ``__dict__`` entries by object index; no private field is named anywhere."""

    def __init__(self, name, ids, n_wbs, names=None, links_only=False, ctor=False, alphabet='full', twin=False):
        self.name = name
        self.ids = list(ids)
        self.n = len(ids)
        self.m = n_wbs
        self.links_only = links_only
        self.ctor = ctor
        self.alphabet = alphabet
        names = names or ['b', 'a', 'b', 'a', 'c'][:self.n]
        self.names = list(names)
        # 'mix' holds incomparable values (str / None): sorting by it raises part-way through
        self.mix = ['b', 'a', None, 'c', 'a'][:self.n]
        # attribute names that look like the library's own bookkeeping (parent_id, predecessor_ids, *_id) are ordinary
        # custom attributes and must be treated as such
        self.extra = [dict(parent_id='p%d' % i, predecessor_ids='q%d' % i, ticket_id='T-%d' % i) for i in range(self.n)]
        # twin: the second half of the tasks are look-alikes of the first half (same id, name and custom attribute values) and the
        # WBSs carry equal attributes - two plans made from one template, equal by value and distinct as objects
        self.twin = twin
        h = max(1, self.n // 2)
        if twin:
            self.mix = [self.mix[i % h] for i in range(self.n)]
            self.extra = [self.extra[i % h] for i in range(self.n)]
        self.tasks = [Task(ids[i], name=names[i], tag='t%d' % (i % h if twin else i), mix=self.mix[i], **self.extra[i]) for i in range(self.n)]
        self.wbs = []
        for k in range(n_wbs):
            w = WBS()
            w.title = 'W' if twin else 'W%d' % k
            self.wbs.append(w)
        self.hroots = []
        for w in self.wbs:
            hr = [v for v in w.__dict__.values() if isinstance(v, Task)]
            if len(hr) != 1:
                raise RuntimeError('HARNESS cannot locate the hidden root of a WBS generically')
            self.hroots.append(hr[0])
        self.objs = self.tasks + self.wbs + self.hroots
        self.ref = {}
        for i, o in enumerate(self.objs):
            self.ref[id(o)] = i
        self._plains = []       # plain values met inside nested containers (token -> object)
        self._plain_ix = {}
        self.initial = [dict(o.__dict__) for o in self.objs]
        for d in self.initial:
            for k, v in list(d.items()):
                if type(v) is list and not any(type(x) in _CONTAINERS for x in v):
                    d[k] = tuple(v)
                elif type(v) in _CONTAINERS:
                    # nested / non-list containers (a refactored library may keep its relations in tuples of lists, dicts,
                    # sets): kept in encoded form so that restore builds fresh containers every time
                    d[k] = ('DEEP', self._enc_deep(v))
        self.attrs0 = self.observe_attrs()
        self.init_enc = self.encode()

    # ---- concrete state ------------------------------------------------------------------
    def _enc_val(self, v):
        r = self.ref.get(id(v))
        if r is None:
            return ('Z', type(v).__name__, getattr(v, 'id', None))
        return r

    def _enc_deep(self, v):
        """Hashable encoding of an arbitrarily nested container of universe objects and plain values."""
        tv = type(v)
        if tv is Task or tv is WBS:
            r = self.ref.get(id(v))
            return ('R', r) if r is not None else ('Z', tv.__name__, getattr(v, 'id', None))
        if tv is list:
            return ('L', tuple([self._enc_deep(x) for x in v]))
        if tv is tuple:
            return ('T', tuple([self._enc_deep(x) for x in v]))
        if tv is dict:
            return ('D', tuple([(self._enc_deep(k), self._enc_deep(x)) for k, x in v.items()]))
        if tv is set or tv is frozenset:
            return ('S' if tv is set else 'F', tuple(sorted((self._enc_deep(x) for x in v), key=repr)))
        try:
            hash(v)
            # plain hashable values (ids used as dict keys, numbers, strings) travel by value: states are handed from one worker
            # process to another, so an index into a per-process table would not survive the trip
            return ('V', tv.__name__, v)
        except TypeError:
            pass
        key = ('id', id(v))
        ix = self._plain_ix.get(key)
        if ix is None:
            ix = self._plain_ix[key] = len(self._plains)
            self._plains.append(v)
        return ('P', ix)

    def _dec_deep(self, e):
        k = e[0]
        if k == 'R':
            return self.objs[e[1]]
        if k == 'V':
            return e[2]
        if k == 'P':
            if e[1] >= len(self._plains):
                raise RuntimeError('HARNESS cannot restore an unhashable plain value created in another worker process')
            return self._plains[e[1]]
        if k == 'L':
            return [self._dec_deep(x) for x in e[1]]
        if k == 'T':
            return tuple(self._dec_deep(x) for x in e[1])
        if k == 'D':
            return {self._dec_deep(a): self._dec_deep(b) for a, b in e[1]}
        if k == 'S':
            return {self._dec_deep(x) for x in e[1]}
        if k == 'F':
            return frozenset(self._dec_deep(x) for x in e[1])
        raise RuntimeError('HARNESS cannot restore a value that is not part of the universe: %r' % (e,))

    def encode(self):
        """Concrete state: every relation-typed __dict__ entry, by object index.  Sets
        self.attrs_changed when a non-relation entry differs from the initial one or the key
        set changed (ops of the alphabet never assign plain attributes)."""
        out = []
        ref = self.ref
        changed = False
        for o, init in zip(self.objs, self.initial):
            items = []
            d = o.__dict__
            if len(d) != len(init):
                changed = True
            for k, v in d.items():
                tv = type(v)
                if tv is list:
                    try:
                        items.append((k, tuple([ref[id(x)] for x in v])))
                    except KeyError:
                        if any(type(x) in _CONTAINERS for x in v):
                            items.append((k, ('DEEP', self._enc_deep(v))))
                        else:
                            items.append((k, tuple([ref[id(x)] if id(x) in ref else self._enc_val(x) for x in v])))
                elif tv in _CONTAINERS:
                    items.append((k, ('DEEP', self._enc_deep(v))))
                elif tv is Task or tv is WBS:
                    items.append((k, ref[id(v)] if id(v) in ref else self._enc_val(v)))
                else:
                    iv = init.get(k, init)
                    if iv is v:
                        continue
                    if v is None and (type(iv) is tuple or type(iv) is Task or type(iv) is WBS):
                        items.append((k, None))
                    elif not (type(iv) is tv and iv == v):
                        changed = True
            out.append(tuple(items))
        self.attrs_changed = changed
        return tuple(out)

    def restore(self, enc):
        objs = self.objs
        for o, init, items in zip(objs, self.initial, enc):
            d = o.__dict__
            d.clear()
            for k, v in init.items():
                if type(v) is tuple:
                    d[k] = self._dec_deep(v[1]) if (len(v) == 2 and v[0] == 'DEEP') else list(v)
                else:
                    d[k] = v
            for k, v in items:
                if type(v) is tuple:
                    if len(v) == 2 and v[0] == 'DEEP':
                        d[k] = self._dec_deep(v[1])
                    else:
                        d[k] = [objs[x] for x in v]
                elif v is None:
                    d[k] = None
                else:
                    d[k] = objs[v]

    @staticmethod
    def enc_has_zombie(enc):
        for items in enc:
            for _, v in items:
                if type(v) is tuple:
                    if v and v[0] == 'Z':
                        return True
                    if len(v) == 2 and v[0] == 'DEEP':
                        if "('Z'," in repr(v):
                            return True
                        continue
                    for x in v:
                        if type(x) is tuple:
                            return True
        return False

    # ---- observation through public getters ----------------------------------------------
    def _r(self, o):
        if o is None:
            return None
        r = self.ref.get(id(o))
        return 'Z' if r is None else r

    def observe(self):
        r = self._r
        T = []
        for t in self.tasks:
            T.append((r(t.parent), tuple(r(c) for c in t.children), tuple(r(x) for x in t.predecessors),
                      tuple(r(x) for x in t.successors), r(t.wbs), t.id))
        # third component: W.tasks as the public getter reports it (None if it does not terminate)
        wt = []
        for w in self.wbs:
            try:
                wt.append(tuple(r(x) for x in w.tasks))
            except RecursionError:
                wt.append(None)
        return (tuple(T), tuple(tuple(r(x) for x in w.roots) for w in self.wbs), tuple(wt))

    def observe_attrs(self):
        out = []
        for t in self.tasks:
            out.append(tuple(sorted((k, repr(v)) for k, v in t.to_dict().items())))
        for w in self.wbs:
            out.append(tuple(sorted((k, repr(v)) for k, v in w.__dict__.items() if not k.startswith('_'))))
        return tuple(out)


# --------------------------------------------------------------------------------------------
# abstract state

class A:
    """parent, ordered children, predecessor/successor sets, owner, ordered roots per WBS."""
    __slots__ = ('n', 'm', 'par', 'ch', 'pred', 'succ', 'own', 'roots')

    def __init__(self, n, m):
        self.n = n
        self.m = m
        self.par = [None] * n
        self.ch = [[] for _ in range(n)]
        self.pred = [set() for _ in range(n)]
        self.succ = [set() for _ in range(n)]
        self.own = [None] * n
        self.roots = [[] for _ in range(m)]

    def copy(self):
        b = A.__new__(A)
        b.n = self.n
        b.m = self.m
        b.par = list(self.par)
        b.ch = [list(x) for x in self.ch]
        b.pred = [set(x) for x in self.pred]
        b.succ = [set(x) for x in self.succ]
        b.own = list(self.own)
        b.roots = [list(x) for x in self.roots]
        return b

    def key(self):
        return (tuple(self.par), tuple(tuple(x) for x in self.ch), tuple(frozenset(x) for x in self.pred),
                tuple(frozenset(x) for x in self.succ), tuple(self.own), tuple(tuple(x) for x in self.roots))

    def __eq__(self, other):
        return self.key() == other.key()

    def __hash__(self):
        return hash(self.key())

    def describe(self):
        return {'parent': self.par, 'children': self.ch, 'pred': [sorted(x) for x in self.pred],
                'succ': [sorted(x) for x in self.succ], 'owner': self.own, 'roots': self.roots}

    # helpers (cycle-safe)
    def subtree(self, i):
        out, seen, stack = [], set(), [i]
        while stack:
            x = stack.pop()
            if x in seen:
                continue
            seen.add(x)
            out.append(x)
            stack.extend(reversed(self.ch[x]))
        return out

    def ancestors(self, i):
        out, seen = [], {i}
        p = self.par[i]
        while p is not None and p not in seen:
            out.append(p)
            seen.add(p)
            p = self.par[p]
        return out

    def members(self, k):
        out = []
        for r in self.roots[k]:
            out.extend(self.subtree(r))
        return out


def abstract(obs, n, m):
    """Abstract state from an observation (which must be zombie-free)."""
    a = A(n, m)
    T, Wl = obs[0], obs[1]
    for i, (p, ch, pr, su, w, _id) in enumerate(T):
        a.par[i] = p
        a.ch[i] = list(ch)
        a.pred[i] = set(pr)
        a.succ[i] = set(su)
        a.own[i] = None if w is None else w - n
    for k, r in enumerate(Wl):
        a.roots[k] = list(r)
    return a


def obs_has_zombie(obs):
    T, Wl = obs[0], obs[1]
    for (p, ch, pr, su, w, _id) in T:
        if p == 'Z' or w == 'Z' or 'Z' in ch or 'Z' in pr or 'Z' in su:
            return True
    for r in Wl:
        if 'Z' in r:
            return True
    return False


# --------------------------------------------------------------------------------------------
# state invariants; each returns a list of (property, clause, detail)

def state_violations(U: Universe, obs):
    """Invariants decidable from the observation alone (C01 a-e, C05 a, C11 a)."""
    out = []
    n, m = U.n, U.m
    T, Wl = obs[0], obs[1]
    # C05: WBS.tasks lists every member exactly once (checked on the raw getter output, so it is also evaluated in states
    # whose hierarchy is broken)
    for k, wt in enumerate(obs[2]):
        if wt is None:
            out.append(('C05', 'wbs-tasks-does-not-terminate', f'W{k}.tasks recurses without bound'))
        elif len(set(wt)) != len(wt):
            out.append(('C05', 'wbs-tasks-lists-member-twice', f'W{k}.tasks = {list(wt)}'))
    if obs_has_zombie(obs):
        out.append(('C01', 'unknown-task-object-reachable', 'a task object outside the universe is reachable'))
        return out
    par = [t[0] for t in T]
    ch = [t[1] for t in T]
    pred = [t[2] for t in T]
    succ = [t[3] for t in T]
    own = [None if t[4] is None else t[4] - n for t in T]
    ids = [t[5] for t in T]
    for i in range(n):
        if par[i] is not None and not (isinstance(par[i], int) and par[i] < n):
            out.append(('C01', 'parent-not-a-task', f't{i}.parent is not a task of the universe'))
            return out
        if T[i][4] is not None and not (isinstance(T[i][4], int) and n <= T[i][4] < n + m):
            out.append(('C11', 'owner-not-a-wbs', f't{i}.wbs is not a WBS'))
            return out
    # (a) listed exactly once in exactly the parent's children
    for i in range(n):
        listed_in = [(p, ch[p].count(i)) for p in range(n) if i in ch[p]]
        in_roots = [(k, Wl[k].count(i)) for k in range(m) if i in Wl[k]]
        if par[i] is not None:
            if listed_in != [(par[i], 1)]:
                out.append(('C01', 'forest-children-parent-mismatch',
                            f't{i} reports parent t{par[i]} but is listed in children of {listed_in}'))
            if in_roots:
                out.append(('C01', 'forest-child-listed-as-root', f't{i} has parent t{par[i]} and is in roots of {in_roots}'))
        else:
            if listed_in:
                out.append(('C01', 'forest-children-parent-mismatch',
                            f't{i} reports no parent but is listed in children of {listed_in}'))
            if len(in_roots) > 1 or (in_roots and in_roots[0][1] != 1):
                out.append(('C01', 'forest-root-listed-twice', f't{i} is listed in roots {in_roots}'))
    # (b) no task is its own ancestor
    for i in range(n):
        seen, p = set(), par[i]
        while p is not None:
            if p == i or p in seen:
                out.append(('C01', 'forest-ancestor-cycle', f't{i} is its own ancestor'))
                break
            seen.add(p)
            p = par[p]
    if out:
        return out
    # (c) symmetry
    for i in range(n):
        for j in set(pred[i]):
            if i not in succ[j]:
                out.append(('C01', 'links-asymmetric', f't{j} in t{i}.predecessors but t{i} not in t{j}.successors'))
        for j in set(succ[i]):
            if i not in pred[j]:
                out.append(('C01', 'links-asymmetric', f't{j} in t{i}.successors but t{i} not in t{j}.predecessors'))
    # (d) self-links and cycles (over the union of both directions so asymmetry cannot hide one)
    edges = {i: set() for i in range(n)}
    for i in range(n):
        for j in pred[i]:
            edges[j].add(i)
        for j in succ[i]:
            edges[i].add(j)
    for i in range(n):
        if i in edges[i]:
            out.append(('C01', 'links-self', f't{i} is linked to itself'))
    color = {}

    def dfs(u):
        color[u] = 1
        for v in edges[u]:
            if v == u:
                continue
            c = color.get(v)
            if c == 1:
                return True
            if c is None and dfs(v):
                return True
        color[u] = 2
        return False

    for i in range(n):
        if color.get(i) is None and dfs(i):
            out.append(('C01', 'links-cycle', 'dependency cycle'))
            break
    # (e) no link between ancestor and descendant
    for i in range(n):
        anc, p = set(), par[i]
        while p is not None:
            anc.add(p)
            p = par[p]
        for j in anc:
            if j in edges[i] or i in edges[j]:
                out.append(('C01', 'links-ancestor-descendant', f't{i} linked with its ancestor t{j}'))
    # C11 (a): owner <=> reachable from roots
    reach = {}
    for k in range(m):
        stack = list(Wl[k])
        while stack:
            x = stack.pop()
            if x in reach:
                if reach[x] != k:
                    out.append(('C11', 'member-of-two-wbs', f't{x} reachable from W{reach[x]} and W{k}'))
                continue
            reach[x] = k
            stack.extend(ch[x])
    for i in range(n):
        if own[i] != reach.get(i):
            out.append(('C11', 'owner-mismatch',
                        f't{i}.wbs is {"W%d" % own[i] if own[i] is not None else None} but reachable from '
                        f'{"W%d" % reach[i] if i in reach else None}'))
    # C05 (a): ids unique per WBS and per detached tree
    groups = {}
    for i in range(n):
        if i in reach:
            g = ('W', reach[i])
        else:
            top = i
            while par[top] is not None:
                top = par[top]
            g = ('T', top)
        groups.setdefault(g, []).append(i)
    for g, mem in groups.items():
        seen = {}
        for i in mem:
            if ids[i] in seen:
                out.append(('C05', 'duplicate-id', f't{seen[ids[i]]} and t{i} share id {ids[i]} in {g}'))
            seen[ids[i]] = i
    return out


def has_duplicate_links(obs):
    """True when some link list holds the same task more than TWICE. States with a doubled entry are expanded (their
    futures are where a lost mirror update shows); beyond two copies the space would be infinite."""
    for t in obs[0]:
        for lst in (t[2], t[3]):
            if len(lst) != len(set(lst)) and max(lst.count(x) for x in set(lst)) > 2:
                return True
    return False


def read_all(U: Universe):
    """The 'read' operation of the alphabet: every public getter is called once and the results are thrown away. What the
    getters return is judged by the state checks; here only the side effect on the library's hidden state matters."""
    for t in U.tasks:
        for name in ('parent', 'children', 'predecessors', 'successors', 'wbs', 'id', 'all_parents', 'all_children'):
            try:
                v = getattr(t, name)
                if name in ('children', 'predecessors', 'successors', 'all_parents', 'all_children'):
                    list(v)
            except Exception:  # noqa - ill-formed states may make getters raise; the state checks report that
                pass
    for w in U.wbs:
        for name in ('roots', 'tasks'):
            try:
                list(getattr(w, name))
            except Exception:  # noqa
                pass
        for idv in sorted(set(U.ids), key=repr) + [ABSENT_ID]:
            try:
                w[idv]
            except Exception:  # noqa
                pass


def getter_violations(U: Universe, obs):
    """Closure getters against the harness's own closures; only called on well-formed states.
    C01 (f): all_parents / all_children; C05 (c),(d): W[id], W.tasks."""
    out = []
    n, m = U.n, U.m
    a = abstract(obs, n, m)
    r = U._r
    for i, t in enumerate(U.tasks):
        try:
            got = [r(x) for x in t.all_parents]
        except RecursionError:
            got = 'RecursionError'
        if got != a.ancestors(i):
            out.append(('C01', 'all_parents-wrong', f't{i}.all_parents = {got}, ancestors are {a.ancestors(i)}'))
        try:
            got = [r(x) for x in t.all_children]
        except RecursionError:
            got = 'RecursionError'
        exp = a.subtree(i)[1:]
        if got != exp:
            out.append(('C01', 'all_children-wrong', f't{i}.all_children = {got}, descendants (depth-first) are {exp}'))
    for k, w in enumerate(U.wbs):
        mem = a.members(k)
        try:
            got = [r(x) for x in w.tasks]
        except RecursionError:
            got = 'RecursionError'
        if got != mem:
            out.append(('C05', 'wbs-tasks-not-dfs', f'W{k}.tasks = {got}, depth-first members are {mem}'))
        for idv in sorted(set(U.ids), key=repr) + [ABSENT_ID]:
            exp = [i for i in mem if U.ids[i] == idv]
            try:
                g = r(w[idv])
                res = ('task', g)
            except RuntimeError as e:
                res = ('RecursionError',) if isinstance(e, RecursionError) else ('RuntimeError',)
            except Exception as e:  # noqa
                res = (type(e).__name__,)
            if len(exp) == 1:
                if res != ('task', exp[0]):
                    out.append(('C05', 'lookup-wrong', f'W{k}[{idv}] gave {res}, the member with that id is t{exp[0]}'))
            elif len(exp) == 0:
                if res != ('RuntimeError',):
                    out.append(('C05', 'lookup-missing-not-runtimeerror', f'W{k}[{idv}] gave {res}, no member has that id'))
    return out
