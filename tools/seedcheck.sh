#!/bin/bash
# tools/seedcheck.sh <tree with the seeded change applied> <tier> <prop> [<prop>...]
# Runs the named checks against another checkout (VF_REPO) with evidence/replays redirected to a scratch dir.
tree=$1; tier=$2; shift 2
out=$(mktemp -d /tmp/vfout.XXXXXX)
for p in "$@"; do
  VF_REPO=$tree VF_OUT=$out /venv/bin/python -m vf $p --tier $tier > $out/$p.log 2>&1
  rc=$?
  echo "$p rc=$rc $(grep -c '^VIOLATION' $out/$p.log) violation lines; $(tail -1 $out/$p.log | cut -c1-160)"
  grep -A1 '^VIOLATION' $out/$p.log | grep signature | head -4 | cut -c1-260
done
rm -rf $out
