#!/usr/bin/env python3
"""Applies each of my own planned mutants (DESIGN section 9) to a scratch worktree, checks the baseline suite still
passes and runs the property's quick check against it. Usage: own_mutants.py [name ...]"""
import os
import subprocess
import sys

WT = os.environ.get('SEEDS_WT', '/tmp/wt/mine')
M = [
 ('C01-succ-mirror', 'C01', 'src/pjplan/task.py',
  "        for v in self.__predecessors:\n            if self in v.__successors:\n                v.__successors.remove(self)\n",
  "        for v in self.__predecessors:\n            if self in v.__successors and v in value:\n                v.__successors.remove(self)\n"),
 ('C05-roots-only', 'C05', 'src/pjplan/task.py',
  "    for ch in children:\n        all_children_tasks += _collect_subtree(ch)\n",
  "    for ch in children:\n        all_children_tasks += [ch]\n"),
 ('C11-attach-norecurse', 'C11', 'src/pjplan/task.py',
  "        self.__wbs = wbs\n        for ch in self.children:\n            ch._attach(wbs)\n",
  "        self.__wbs = wbs\n"),
 ('C15-reorder-live', 'C15', 'src/pjplan/task.py',
  "        _all = self._list.copy()\n", "        _all = self._list\n"),
 ('C16-move-after-offbyone', 'C16', 'src/pjplan/task.py',
  "                self._list.insert(self._list.index(after) + 1, task)\n", "                self._list.insert(self._list.index(after), task)\n"),
 ('C16-sort-unstable-reverse', 'C16', 'src/pjplan/task.py',
  "            self._list = sorted(self._list, key=lambda x: x.__getattribute__(key), reverse=reverse)\n        elif",
  "            self._list = sorted(self._list, key=lambda x: x.__getattribute__(key))\n            if reverse:\n                self._list.reverse()\n        elif"),
 ('C10-subtree-keeps-member-links', 'C10', 'src/pjplan/wbs.py',
  "            return task if task.wbs != self else None\n", "            return task\n"),
 ('C02-children-get-min-date', 'C02', 'src/pjplan/schedule.py',
  "            self.__forward_pass(ch, max_predecessor_ends, resource_usage, calculated)\n", "            self.__forward_pass(ch, min_date, resource_usage, calculated)\n"),
 ('C03-balance-per-task', 'C03', 'src/pjplan/schedule.py',
  "            reserved = resource_usage.reserved(resource, date) if self.__balance_resources \\\n                else resource_usage.reserved(resource, date, task)\n\n            date_available_units",
  "            reserved = resource_usage.reserved(resource, date, task)\n\n            date_available_units"),
 ('C04-ignore-spent', 'C04', 'src/pjplan/schedule.py',
  "                    left_hours = max(_task.estimate - _task.spent, 0)\n                    start = max(_task.start, datetime.now())",
  "                    left_hours = max(_task.estimate, 0)\n                    start = max(_task.start, datetime.now())"),
 ('C06-no-clone', 'C06', 'src/pjplan/schedule.py',
  "        backward = project.clone()\n", "        backward = project\n"),
 ('C07-end-last-child', 'C07', 'src/pjplan/schedule.py',
  "                    _task.end = max([t.end for t in _task.children if t.end is not None])\n", "                    _task.end = [t.end for t in _task.children if t.end is not None][-1]\n"),
 ('C08-search-next-day', 'C08', 'src/pjplan/schedule.py',
  "        d = resource.get_nearest_availability_date(start_date, 1)\n", "        d = resource.get_nearest_availability_date(start_date + timedelta(days=1), 1)\n"),
 ('C09-children-forward-order', 'C09', 'src/pjplan/schedule.py',
  "        for ch in reversed(_task.children):\n", "        for ch in _task.children:\n"),
 ('C12-ignore-spent', 'C12', 'src/pjplan/alg/critical_path.py',
  "        self.__add_work(task.id, max(estimate - spent, 0), p_ids)\n", "        self.__add_work(task.id, max(estimate, 0), p_ids)\n"),
 ('C13-pred-comma', 'C13', 'src/pjplan/io/csv_io.py',
  "                ';'.join([str(pid) for pid in task.predecessor_ids])\n", "                ','.join([str(pid) for pid in task.predecessor_ids])\n"),
 ('C14-valueerror', 'C14', 'src/pjplan/resource.py',
  "        raise RuntimeError(\n            \"Can't find nearest availability time for resource\", self.name,", "        raise ValueError(\n            \"Can't find nearest availability time for resource\", self.name,"),
 ('C17-end-exclusive', 'C17', 'src/pjplan/calendar.py',
  "        if self.__end is not None and date > self.__end:\n            return None\n", "        if self.__end is not None and date >= self.__end:\n            return None\n"),
 ('C17-sub-zero', 'C17', 'src/pjplan/calendar.py',
  "        if units is None or units < 0:\n            return None\n        return units\n", "        if units is None:\n            return None\n        return max(units, 0)\n"),
 ('C18-le-strict', 'C18', 'src/pjplan/task.py',
  "                    if val is None or not val <= v:\n", "                    if val is None or not val < v:\n"),
 ('C19-link-id-per-task', 'C19', 'src/pjplan/viz/dhtmlx/gantt.py',
  "                for p in t.predecessors:\n                    link_id += 1\n", "                link_id += 1\n                for p in t.predecessors:\n"),
 ('C20-width-ignores-header', 'C20', 'src/pjplan/utils.py',
  "        for r in self.__rows:\n            for i in range(0, len(r)):\n                widths_map[i]", "        for r in self.__rows[1:]:\n            for i in range(0, len(r)):\n                widths_map[i]"),
]


def sh(cmd, **kw):
    return subprocess.run(cmd, shell=True, capture_output=True, text=True, **kw)


def main():
    want = sys.argv[1:]
    for name, prop, path, old, new in M:
        if want and name not in want and prop not in want:
            continue
        sh(f'git -C {WT} checkout -- .')
        fp = os.path.join(WT, path)
        s = open(fp).read()
        if s.count(old) != 1:
            print(f'{name}: PATTERN NOT FOUND ({s.count(old)} matches)')
            continue
        open(fp, 'w').write(s.replace(old, new))
        t = sh(f'cd {WT} && PYTHONPATH={WT}/src /venv/bin/python -m pytest -q -p no:cacheprovider tests 2>&1 | tail -1')
        tests = t.stdout.strip()
        r = sh(f'cd /verif && tools/seedcheck.sh {WT} quick {prop}')
        print(f'{name}: tests [{tests}]')
        print('   ' + r.stdout.strip().replace('\n', '\n   '))
        sh(f'git -C {WT} checkout -- .')


main()
