#!/usr/bin/env python3
"""Applies each benign change (property-preserving behaviour change written by an independent agent) to a scratch worktree
and runs the quick check of the property it was written against. Any VIOLATION here is a candidate false alarm.
Usage: tools/run_benign.py <dir with benign*.diff + benign.json> <prop> [more dirs/props pairs...]"""
import glob
import json
import os
import subprocess
import sys
import tempfile

WT = os.environ.get('BENIGN_WT', '/tmp/wt/mine2')


def sh(cmd):
    return subprocess.run(cmd, shell=True, capture_output=True, text=True)


def main():
    if not os.path.isdir(WT):
        sh('git -C /repo worktree add --detach %s HEAD' % WT)
    args = sys.argv[1:]
    for d, prop in zip(args[0::2], args[1::2]):
        try:
            info = {x['file']: x for x in json.load(open(d + '/benign.json'))}
        except Exception as e:  # noqa
            info = {}
        for f in sorted(glob.glob(d + '/benign*.diff')):
            sh(f'git -C {WT} checkout -- . && git -C {WT} clean -fdq')
            r = sh(f'git -C {WT} apply {f}')
            name = os.path.basename(f)
            if r.returncode:
                print(prop, name, 'PATCH DOES NOT APPLY')
                continue
            t = sh(f'cd {WT} && PYTHONPATH={WT}/src /venv/bin/python -m pytest -q -p no:cacheprovider tests 2>&1 | tail -1').stdout.strip()
            out = tempfile.mkdtemp(prefix='vfout.')
            r = sh(f'cd /verif && VF_REPO={WT} VF_OUT={out} /venv/bin/python -m vf {prop} --tier quick')
            sigs = [l.strip() for l in r.stdout.splitlines() if l.strip().startswith('signature=')]
            verdict = 'silent' if r.returncode == 0 else ('ALARM' if r.returncode == 1 else 'HARNESS-ERROR')
            print(f'{prop} {name}: tests[{t[:20]}] {verdict} :: {info.get(name, {}).get("summary", "")[:110]}')
            for s in sigs[:3]:
                print('      ', s[:230])
            if r.returncode == 2:
                print('      ', r.stdout.strip().splitlines()[-1][:300])
            sh(f'rm -rf {out}; git -C {WT} checkout -- .')


main()
