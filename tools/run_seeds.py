#!/usr/bin/env python3
"""Applies every stored seeded change (seeded/<name>/patch.diff) to a scratch worktree outside /repo and /verif and runs
the quick check of its property against it (VF_REPO), recording the outcome in seeded/<name>/meta.json.
Usage: tools/run_seeds.py [name ...]   (needs the scratch worktree: git -C /repo worktree add --detach /tmp/wt/mine HEAD)"""
import glob
import json
import os
import subprocess
import sys
import tempfile

WT = os.environ.get('SEEDS_WT', '/tmp/wt/mine')


def sh(cmd):
    return subprocess.run(cmd, shell=True, capture_output=True, text=True)


def main():
    names = sys.argv[1:] or sorted(os.path.basename(d) for d in glob.glob('/verif/seeded/*') if os.path.isdir(d))
    if not os.path.isdir(WT):
        sh('git -C /repo worktree add --detach %s HEAD' % WT)
    summary = []
    for name in names:
        d = '/verif/seeded/' + name
        meta = json.load(open(d + '/meta.json'))
        prop = meta['property']
        sh(f'git -C {WT} checkout -- . && git -C {WT} clean -fdq')
        r = sh(f'git -C {WT} apply {d}/patch.diff')
        if r.returncode:
            # /repo moved on (fix: commits) since the change was written: apply with fuzz and store the rebased patch
            r = sh(f'cd {WT} && patch -p1 -F3 --no-backup-if-mismatch < {d}/patch.diff')
            if r.returncode:
                print(name, 'PATCH DOES NOT APPLY', r.stdout[-200:])
                sh(f'git -C {WT} checkout -- . && git -C {WT} clean -fdq')
                continue
            if not os.path.exists(d + '/patch.original.diff'):
                sh(f'cp {d}/patch.diff {d}/patch.original.diff')
            open(d + '/patch.diff', 'w').write(sh(f'git -C {WT} diff -- src').stdout)
            meta['rebased'] = 'patch.diff was re-created on the current /repo HEAD with patch -F3; the original is patch.original.diff'
        demo = sh(f'cd {WT} && PYTHONPATH={WT}/src /venv/bin/python {d}/demo.py >/dev/null 2>&1; echo $?').stdout.strip()
        meta['demo_on_current_head_with_change'] = 'FAIL' if demo != '0' else 'PASS'
        if demo == '0':
            meta['neutralised'] = ('the demonstration passes with the change applied to the current /repo HEAD: a later fix: commit made this '
                                   'change harmless, it no longer breaks the property')
        out = tempfile.mkdtemp(prefix='vfout.')
        r = sh(f'cd /verif && VF_REPO={WT} VF_OUT={out} /venv/bin/python -m vf {prop} --tier quick')
        sigs = [l.strip()[10:].split(' count=')[0] for l in r.stdout.splitlines() if l.strip().startswith('signature=')]
        caught = r.returncode == 1 and 'VIOLATION' in r.stdout
        meta['checked_against'] = {'check': f'{prop} quick', 'exit_code': r.returncode, 'detected': caught,
                                   'first_signatures': sigs[:3]}
        json.dump(meta, open(d + '/meta.json', 'w'), indent=1)
        sh(f'rm -rf {out}; git -C {WT} checkout -- .')
        print(name, 'DETECTED' if caught else ('NEUTRALISED' if meta.get('neutralised') else 'OUTSIDE-STATEMENT' if meta.get('outside_statement')
                                               else 'MISSED rc=%d' % r.returncode), sigs[:1])
        summary.append((name, caught))
    print('detected %d of %d' % (sum(1 for _, c in summary if c), len(summary)))


main()
