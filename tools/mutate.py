#!/venv/bin/python
"""Syntactic mutation testing of pjplan against the checks in /verif (a gap finder for the checks, not a check itself).

  tools/mutate.py count                      -> mutants per source file
  tools/mutate.py run <file> [--from N] [--to M] [--every K] [--workers W]

For each mutant of src/pjplan/<file>: written into the scratch worktree /tmp/wt/mut (never /repo), baseline suite run
(must stay at 84 passed / 4 failed, otherwise the mutant is 'killed-by-tests' and uninteresting), then the quick checks
relevant to the file are run against the worktree (VF_REPO, VF_OUT) until one reports a violation.  Survivors are written to
/verif/mutation/<file>.survivors.jsonl for inspection: each is either equivalent / outside every property, or a gap.
"""
import ast
import copy
import json
import os
import subprocess
import sys
import tempfile
import time

WT = os.environ.get('MUT_WT', '/tmp/wt/mut')  # use another worktree (MUT_WT=...) for a second, concurrent run
SRC = 'src/pjplan'
FILES = {
    'task.py': ['C18', 'C20', 'C16', 'C10', 'C13', 'C12'],          # C16 run = all Engine A properties (VF_ALL_PROPS)
    'wbs.py': ['C12', 'C10', 'C16', 'C06', 'C13'],
    'schedule.py': ['C08', 'C09', 'C04', 'C02', 'C07', 'C14', 'C03'],
    'calendar.py': ['C17', 'C03', 'C14'],
    'resource.py': ['C17', 'C14', 'C03'],
    'alg/critical_path.py': ['C12'],
    'io/csv_io.py': ['C13'],
    'io/raw.py': ['C13'],
    'viz/mermaid/gantt.py': ['C19'],
    'viz/mermaid/network.py': ['C19'],
    'viz/dhtmlx/gantt.py': ['C19'],
    'utils.py': ['C20'],
}

CMP = {ast.Lt: ast.LtE, ast.LtE: ast.Lt, ast.Gt: ast.GtE, ast.GtE: ast.Gt, ast.Eq: ast.NotEq, ast.NotEq: ast.Eq,
       ast.Is: ast.IsNot, ast.IsNot: ast.Is, ast.In: ast.NotIn, ast.NotIn: ast.In}
BIN = {ast.Add: ast.Sub, ast.Sub: ast.Add, ast.Mult: ast.Div, ast.Div: ast.Mult}


def sites(tree):
    """Yield (description, mutator) where mutator(node_copy_root) applies the mutation on a deep copy located by index."""
    nodes = list(ast.walk(tree))
    for idx, n in enumerate(nodes):
        ln = getattr(n, 'lineno', 0)
        if isinstance(n, ast.Compare):
            for k, op in enumerate(n.ops):
                if type(op) in CMP:
                    yield idx, f'L{ln} compare {type(op).__name__}->{CMP[type(op)].__name__}', ('cmp', k)
        elif isinstance(n, ast.BoolOp):
            yield idx, f'L{ln} boolop {type(n.op).__name__} swapped', ('bool',)
        elif isinstance(n, ast.UnaryOp) and isinstance(n.op, ast.Not):
            yield idx, f'L{ln} not removed', ('not',)
        elif isinstance(n, ast.BinOp) and type(n.op) in BIN:
            yield idx, f'L{ln} binop {type(n.op).__name__}->{BIN[type(n.op)].__name__}', ('bin',)
        elif isinstance(n, ast.Constant) and type(n.value) in (int, bool) and not isinstance(n.value, str):
            if n.value is True or n.value is False:
                yield idx, f'L{ln} const {n.value}->{not n.value}', ('const', not n.value)
            elif n.value in (0, 1):
                yield idx, f'L{ln} const {n.value}->{1 - n.value}', ('const', 1 - n.value)
        elif isinstance(n, ast.Call) and isinstance(n.func, ast.Name) and n.func.id in ('min', 'max'):
            yield idx, f'L{ln} {n.func.id}->{"max" if n.func.id == "min" else "min"}', ('minmax',)
        elif isinstance(n, ast.If):
            yield idx, f'L{ln} if forced False', ('iff', False)
            yield idx, f'L{ln} if forced True', ('iff', True)
        elif isinstance(n, (ast.Expr, ast.Assign, ast.AugAssign)) and not (isinstance(n, ast.Expr) and isinstance(n.value, ast.Constant)):
            yield idx, f'L{ln} statement deleted: {ast.unparse(n)[:50]}', ('del',)
        elif isinstance(n, ast.Raise):
            yield idx, f'L{ln} raise deleted', ('del',)
        elif isinstance(n, ast.Return) and n.value is not None and not (isinstance(n.value, ast.Constant) and n.value.value is None):
            yield idx, f'L{ln} return value dropped', ('retnone',)


def apply(tree, idx, mut):
    t = copy.deepcopy(tree)
    nodes = list(ast.walk(t))
    n = nodes[idx]
    k = mut[0]
    if k == 'cmp':
        n.ops[mut[1]] = CMP[type(n.ops[mut[1]])]()
    elif k == 'bool':
        n.op = ast.Or() if isinstance(n.op, ast.And) else ast.And()
    elif k == 'not':
        _replace(t, n, n.operand)
    elif k == 'bin':
        n.op = BIN[type(n.op)]()
    elif k == 'const':
        n.value = mut[1]
    elif k == 'minmax':
        n.func.id = 'max' if n.func.id == 'min' else 'min'
    elif k == 'iff':
        n.test = ast.Constant(value=mut[1])
    elif k == 'del':
        _replace(t, n, ast.Pass())
    elif k == 'retnone':
        n.value = None
    ast.fix_missing_locations(t)
    return ast.unparse(t)


def _replace(tree, old, new):
    for parent in ast.walk(tree):
        for field, value in ast.iter_fields(parent):
            if value is old:
                setattr(parent, field, new)
                return
            if isinstance(value, list):
                for i, v in enumerate(value):
                    if v is old:
                        value[i] = new
                        return


def sh(cmd, timeout=None):
    try:
        return subprocess.run(cmd, shell=True, capture_output=True, text=True, timeout=timeout)
    except subprocess.TimeoutExpired:
        class R:
            returncode = 124
            stdout = ''
            stderr = 'timeout'
        return R()


def main():
    if len(sys.argv) < 2:
        print(__doc__)
        return
    if not os.path.isdir(WT):
        sh(f'git -C /repo worktree add --detach {WT} HEAD')
    sh(f'git -C {WT} checkout -q --detach $(git -C /repo rev-parse HEAD) && git -C {WT} checkout -- .')
    if sys.argv[1] == 'count':
        tot = 0
        for f in FILES:
            tree = ast.parse(open(os.path.join(WT, SRC, f)).read())
            n = sum(1 for _ in sites(tree))
            tot += n
            print(f'{f}: {n}')
        print('total', tot)
        return
    f = sys.argv[2]
    args = sys.argv[3:]

    def opt(name, default):
        return int(args[args.index(name) + 1]) if name in args else default
    lo, hi, every, workers = opt('--from', 0), opt('--to', 10 ** 9), opt('--every', 1), opt('--workers', 12)
    only = set(int(x) for x in args[args.index('--only') + 1].split(',')) if '--only' in args else None
    path = os.path.join(WT, SRC, f)
    original = open(path).read()
    tree = ast.parse(original)
    allsites = list(sites(tree))
    os.makedirs('/verif/mutation', exist_ok=True)
    tag = f.replace('/', '_')
    log = open(f'/verif/mutation/{tag}.log.jsonl', 'a')
    surv = open(f'/verif/mutation/{tag}.survivors.jsonl', 'a')
    checks = FILES[f]
    stats = {'killed-by-tests': 0, 'detected': 0, 'survived': 0, 'invalid': 0, 'harness-error': 0}
    for num, (idx, desc, mut) in enumerate(allsites):
        if num < lo or num >= hi or (num - lo) % every or (only is not None and num not in only):
            continue
        try:
            src = apply(tree, idx, mut)
            compile(src, f, 'exec')
        except Exception as e:  # noqa
            stats['invalid'] += 1
            continue
        open(path, 'w').write(src)
        t0 = time.time()
        r = sh(f'cd {WT} && PYTHONPATH={WT}/src timeout 120 /venv/bin/python -m pytest -q -x -p no:cacheprovider tests 2>&1 | tail -1', 150)
        line = r.stdout.strip()
        rec = {'n': num, 'file': f, 'mutation': desc}
        # -x stops at the first failure: the 4 baseline failures come from test_schedule; rerun without -x only if needed
        if '84 passed' not in line:
            r = sh(f'cd {WT} && PYTHONPATH={WT}/src timeout 300 /venv/bin/python -m pytest -q -p no:cacheprovider tests 2>&1 | tail -1', 330)
            line = r.stdout.strip()
        if not line.startswith('4 failed, 84 passed'):
            stats['killed-by-tests'] += 1
            rec['outcome'] = 'killed-by-tests'
            log.write(json.dumps(rec) + '\n')
            log.flush()
            continue
        outcome = 'survived'
        for chk in checks:
            out = tempfile.mkdtemp(prefix='vfmut.')
            env = f'VF_REPO={WT} VF_OUT={out} VF_WORKERS={workers} VF_ALL_PROPS=1'
            r = sh(f'cd /verif && {env} timeout 900 /venv/bin/python -m vf {chk} --tier quick', 930)
            sh(f'rm -rf {out}')
            if r.returncode == 1:
                sig = [l.strip() for l in r.stdout.splitlines() if l.strip().startswith('signature=')][:1]
                outcome = 'detected'
                rec['by'] = chk
                rec['signature'] = sig[0][:160] if sig else ''
                break
            if r.returncode not in (0, 1):
                outcome = 'harness-error'
                rec['by'] = chk
                rec['detail'] = (r.stdout.strip().splitlines() or [r.stderr[-200:]])[-1][:300]
                break
        stats[outcome] += 1
        rec['outcome'] = outcome
        rec['secs'] = round(time.time() - t0, 1)
        log.write(json.dumps(rec) + '\n')
        log.flush()
        if outcome in ('survived', 'harness-error'):
            surv.write(json.dumps(rec) + '\n')
            surv.flush()
            print(num, outcome, desc, rec.get('detail', ''), flush=True)
    open(path, 'w').write(original)
    sh(f'git -C {WT} checkout -- .')
    print(f, stats, flush=True)


main()
