#!/bin/bash
# tools/confirm_seed.sh <worktree with change applied, patch.diff, demo.py, meta.json> <seed name>
# Confirms: suite at baseline with the change, demo fails with it, demo passes without it; then stores it under seeded/<name>.
wt=$1; name=$2
cd $wt || exit 2
t=$(PYTHONPATH=$wt/src /venv/bin/python -m pytest -q -p no:cacheprovider tests 2>&1 | tail -1)
PYTHONPATH=$wt/src /venv/bin/python demo.py > /tmp/demo_with.$$ 2>&1; with=$?
git apply -R patch.diff || { echo "cannot reverse patch"; exit 2; }
PYTHONPATH=$wt/src /venv/bin/python demo.py > /tmp/demo_without.$$ 2>&1; without=$?
git apply patch.diff
echo "$name: tests=[$t] demo_with_change=$with demo_without_change=$without"
ok=0
case "$t" in "4 failed, 84 passed"*) ;; *) ok=1;; esac
[ $with -ne 0 ] || ok=1
[ $without -eq 0 ] || ok=1
if [ $ok -eq 0 ]; then
  mkdir -p /verif/seeded/$name
  cp patch.diff demo.py /verif/seeded/$name/
  python3 - "$wt" "$name" "$t" <<'PY'
import json, sys
wt, name, t = sys.argv[1:4]
m = json.load(open(wt + '/meta.json'))
out = {'property': m.get('property'), 'summary': m.get('summary'), 'needs': m.get('needs'), 'origin': 'independent sub-agent given only the property text and a scratch worktree',
       'confirmed_by_me': {'suite_with_change': t, 'demo_with_change': 'FAIL (exit 1)', 'demo_without_change': 'PASS (exit 0)',
                           'how': 'tools/confirm_seed.sh in a scratch worktree outside /repo and /verif'}}
json.dump(out, open('/verif/seeded/%s/meta.json' % name, 'w'), indent=1)
PY
  echo "  stored in /verif/seeded/$name"
else
  echo "  NOT CONFIRMED"
fi
rm -f /tmp/demo_with.$$ /tmp/demo_without.$$
