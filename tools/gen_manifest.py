#!/usr/bin/env python3
"""Regenerates /verif/MANIFEST.json from the table below (kept in one place so it stays valid)."""
import json
import os

HERE = os.path.dirname(os.path.dirname(os.path.abspath(__file__)))
PY = '/venv/bin/python'

A_TEXT = ('explicit-state breadth-first search over the real Task/WBS objects of small closed universes '
          '(2-4 tasks, 0-2 WBS, falsy / look-alike / repeated ids; 5-task and look-alike universes from directly built start states), every public '
          'mutator (and the Task constructor) with every argument combination applied in every reachable state, facades held across one or two '
          'operations, every operation once more after all getters were read where reading changes hidden state; each edge is '
          'executed on the implementation and on a reference semantics in lock-step')
A_NOTE = ('trusted: the harness\'s generic __dict__ snapshot/restore (self-checked on every expansion), the reference semantics '
          'of DESIGN 4.4, small-scope bounds (<=4 tasks, <=2 WBS, list arguments of <=2 elements)')

CHECKS = {
    'C01': ('model_checking', 'Engine A', A_TEXT + '; oracle: forest/symmetry/acyclicity/no-ancestor-link invariants in every reached state, returning or raising', A_NOTE, 'explicit-state model checking (BFS) of the implementation with state invariants', '4, 7 C01'),
    'C05': ('model_checking', 'Engine A', A_TEXT + '; oracle: id uniqueness per WBS/tree in every state, RuntimeError for id-duplicating calls, exact W[id] and W.tasks', A_NOTE, 'explicit-state model checking (BFS) of the implementation over duplicate-id universes', '4, 7 C05'),
    'C11': ('model_checking', 'Engine A', A_TEXT + '; oracle: task.wbs == W iff reachable from W.roots in every state; released tasks re-attachable', A_NOTE, 'explicit-state model checking (BFS) of the implementation with two WBSs', '4, 7 C11'),
    'C15': ('model_checking', 'Engine A', A_TEXT + '; oracle: observation before == after for every raising transition', A_NOTE, 'explicit-state model checking (BFS); pre/post comparison on every rejected transition', '4, 7 C15'),
    'C16': ('model_checking', 'Engine A', A_TEXT + '; oracle: post-state is one of the admissible documented effects (incl. frame) for every returning transition', A_NOTE, 'explicit-state model checking (BFS) with lock-step reference model conformance', '4, 7 C16'),
}

B_TEXT = ('direct stateless exploration of the implementation: every input of the finite scenario layers (all hierarchy shapes '
          'with <=4 tasks x all link placements x attribute/calendar/start menus) is scheduled under a virtual clock, and the '
          'environment (clock reads, lazy calendar answers) is explored as a deviation-bounded choice tree; a cross layer varies structure, '
          'attributes, resources (given as list / generator / tuple), calendars, clock position, outside tasks and constructor defaults together on 1-3 tasks; '
          'call histories (calendar edited / another plan scheduled first with the same scheduler or Resource objects / the same ids regrouped or newly linked) '
          'are enumerated; oracle: ')
B_NOTE = ('trusted: the harness-side clock seam (canary-checked each run) and calendar proxies, the oracle clauses of DESIGN '
          'section 7, dyadic value alphabet compared exactly (decimal layer with 1e-9 / 1 s tolerance)')
B_TECH = 'bounded-exhaustive stateless exploration of the scheduler: input layers x deviation-bounded environment choice tree'
B_ORACLES = {
    'C02': 'no unfixed leaf starts or reserves before any own/inherited prerequisite end, project start, min_start or today; milestone placement',
    'C03': 'rows positive, on the resource named by the task, on days with capacity; per-day sums within capacity (per task when balancing is off); report views agree with rows; default resources present',
    'C04': 'reserved == remaining work exactly, once per day, inside [start day, end); start/end vs first/last reserved day; nothing reserved for milestones, completed and summary tasks; fixed dates returned unchanged',
    'C06': 'input observation identical before/after calc, result separate and faithful, repeated calls (same/fresh scheduler, all call histories <=3) equal, forward result independent of all clock histories at or before the project start',
    'C07': 'start <= end, summary start/end/estimate/spent equal the roll-up of the children, WBS.start/end over all tasks',
    'C08': 'every day from release day up to the last work day fully booked, exact start/end capacity encoding, WBS order among independent leaves, removing unrelated tasks (balancing off) leaves dates unchanged',
    'C09': 'no end after the deadline, every own/inherited dependency respected, late packing, end-of-day capacity encoding of start and end',
    'C14': 'all layers incl. unschedulable inputs (external undated predecessors, future fixed ends, never-available resources, hierarchy-closing cycles) under a calendar-lookup budget: outcome is a Schedule or a RuntimeError that is not a RecursionError, and the four named classes must raise',
}
for _p, _o in B_ORACLES.items():
    CHECKS[_p] = ('exploration', 'Engine B', B_TEXT + _o, B_NOTE, B_TECH, '5, 7 ' + _p)

C_NOTE = 'trusted: the reference model written from the statement (listed under assumptions in the evidence), small-scope bounds of the enumerated product'
C_TECH = 'bounded-exhaustive enumeration of a finite input product against a reference model'
CHECKS.update({
    'C10': ('model_checking', 'Engine A', 'every state reachable through attach/re-parent/link operations in small universes (2-3 tasks around WBS X, one task in WBS Y, optionally sharing an id) is enumerated by explicit-state BFS on the real objects; in each state clone() and subtree(R) for every antichain R are executed and compared clause by clause, then 14 kinds of follow-up mutation are applied to copy and source to check independence', A_NOTE, 'explicit-state model checking (BFS) supplying all reachable states; clone/subtree and follow-up mutations executed in each', '4, 7 C10'),
    'C12': ('exploration', 'Engine C', 'all forests with <=4 tasks x all link sets (links on leaves and summaries) x per-leaf estimate/spent menus (dyadic and decimal) compared with a longest-path reference computed in exact rationals', C_NOTE, C_TECH, '6, 7 C12'),
    'C13': ('exploration', 'Engine C', 'layered content model (hierarchy x ids incl. 0 and negatives x links; adversarial strings in every text position and in pairs; dates/numbers/flags) through write_csv/read_csv: round-trip meaning, second/third generation byte fixpoint, and six hand-written layouts from an independent writer', C_NOTE, C_TECH, '6, 7 C13'),
    'C17': ('exploration', 'Engine C', 'all calendar expressions up to nesting depth 1 (quick) / 2 (thorough) over weekly, dated, fixed calendars and scalars x 48 instants against a reference evaluator; availability search over starts x directions x horizons; 13 illegal definitions must raise RuntimeError', C_NOTE, C_TECH, '6, 7 C17'),
    'C18': ('exploration', 'Engine C', 'every single filter (all suffixes x attributes x value alphabet) and pairs of filters on 4-task populations with present/None/absent attributes against a reference predicate; bulk assignment and remove_all (WBS, roots, children) touch exactly the matches', C_NOTE, C_TECH, '6, 7 C18'),
    'C19': ('exploration', 'Engine C', 'forward-scheduled WBSs (all shapes <=3 tasks) rendered by MermaidGantt, MermaidNetwork and DhtmlxGantt with an adversarial name on each task in turn; the documents are parsed by consumer-side parsers (html.parser, gantt line grammar, flowchart tokeniser, JSON) and compared with the tasks and with the rendering under a harmless name', C_NOTE, C_TECH, '6, 7 C19'),
    'C20': ('exploration', 'Engine C', 'text sheets of all hierarchies <=4 tasks x names/values of varying length x field selections x children on/off x themes x entry points, colour codes stripped and the columns recovered from the header line, cells compared with a reference; lists and tasks re-rendered after edits; usage tables of scheduled inputs', C_NOTE, C_TECH, '6, 7 C20'),
})

ENGINES = [
    {'name': 'Engine A', 'path': 'vf/explore/bfs.py', 'serves_properties': ['C01', 'C05', 'C11', 'C15', 'C16', 'C10', 'C18'],
     'kind_free_text': 'explicit-state BFS over the real mutation API with lock-step reference semantics'},
    {'name': 'Engine B', 'path': 'vf/sched', 'serves_properties': ['C02', 'C03', 'C04', 'C06', 'C07', 'C08', 'C09', 'C14'],
     'kind_free_text': 'bounded-exhaustive scheduler input layers x deviation-bounded environment choice tree (virtual clock, lazy calendars)'},
    {'name': 'Engine C', 'path': 'vf/props', 'serves_properties': ['C12', 'C13', 'C17', 'C18', 'C19', 'C20'],
     'kind_free_text': 'bounded-exhaustive differential enumeration of pure functions against reference models'},
]

NOT_YET = {}


def main():
    try:
        from manifest_extra import CHECKS as EXTRA, NOT_APPLICABLE
    except ImportError:
        EXTRA, NOT_APPLICABLE = {}, {}
    checks = dict(CHECKS)
    checks.update(EXTRA)
    out = {
        'version': 1,
        'setup_cmd': f'cd /verif && {PY} -m compileall -q vf && {PY} -m vf.selfcheck',
        'hooks': {
            'guard': 'PJPLAN_VERIF',
            'enable': 'no source hooks: the clock and calendar seams are owned from the harness side (DESIGN 2); checks import /repo/src directly',
            'baseline_off_cmd': 'cd /repo && /venv/bin/python -m pytest -ra -q -p no:cacheprovider --timeout=900 --continue-on-collection-errors',
            'source_commits': [],
            'add_only': True,
        },
        'engines': ENGINES,
        'checks': [],
        'notes': 'Run with /venv/bin/python. VF_REPO=<dir> points the checks at another checkout (used for seeded changes); '
                 'VF_WORKERS limits worker processes. Known findings: /verif/known_findings.json.',
        'not_applicable': [],
    }
    allp = ['C%02d' % i for i in range(1, 21)]
    for pid in allp:
        if pid in checks:
            level, engine, text, note, technique, ref = checks[pid]
            out['checks'].append({
                'property_id': pid,
                'quick_cmd': f'cd /verif && {PY} -m vf {pid} --tier quick',
                'thorough_cmd': f'cd /verif && {PY} -m vf {pid} --tier thorough',
                'evidence_file': f'/verif/evidence/{pid}.json',
                'replay_cmd_template': f'cd /verif && {PY} -m vf {pid} --replay {{path}}',
                'engine': engine,
                'level_claimed': {'category': level, 'text': text, 'design_ref': 'DESIGN.md section ' + ref},
                'level_note': note,
                'technique': technique,
            })
        else:
            out['not_applicable'].append({'property_id': pid, 'reason': NOT_APPLICABLE.get(
                pid, 'check not built yet in this revision of /verif (planned, see DESIGN.md section 7); not claimed until it runs')})
    with open(os.path.join(HERE, 'MANIFEST.json'), 'w') as f:
        json.dump(out, f, indent=1)
    print('checks:', [c['property_id'] for c in out['checks']])


if __name__ == '__main__':
    import sys
    sys.path.insert(0, os.path.dirname(os.path.abspath(__file__)))
    main()
