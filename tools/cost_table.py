#!/usr/bin/env python3
"""Prints the cost table of DESIGN section 10 from the evidence files of the last quick runs (evidence/<id>.json)."""
import glob
import json
import os

rows = []
for f in sorted(glob.glob(os.path.join(os.path.dirname(__file__), '..', 'evidence', 'C*.json'))):
    d = json.load(open(f))
    c = d.get('coverage', {})
    size = []
    for k in ('states', 'transitions', 'evaluations', 'distinct_nontrivial'):
        if k in c:
            size.append('%s %s' % (format(c[k], ','), k.replace('_', ' ')))
    wall = d.get('wall_s')
    rows.append((d.get('property_id') or os.path.basename(f)[:3], d.get('tier', '?'), '; '.join(size), wall))
print('| check | tier | enumerated | wall |')
print('|---|---|---|---|')
for r in rows:
    print('| %s | %s | %s | %s s |' % (r[0], r[1], r[2], ('%.0f' % r[3]) if isinstance(r[3], (int, float)) else '?'))
